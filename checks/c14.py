"""C14 — Published diagnostics always reflect the current analysis.

Theorem half: coq/Props/C14.v over the model coq/Lsp/DiagCache.v (publish_diagnostics, its cache, the severity
handling of reload_project, diagnostics_by_uri, flatten_related, to_lsp_diagnostic).

Exploration half (black box, the vhdl_ls binary over stdio):
  * sessions (didOpen / didChange full+ranged / vhdl_ls.toml rewritten + didChangeWatchedFiles / didCreateFiles /
    didRenameFiles / didDeleteFiles with the file system changed accordingly) are generated from VERIF_SEED;
  * after every step `sync()` (deterministic barrier) and the publishDiagnostics notifications are folded into the
    client view;
  * ORACLE at every quiescent point: a freshly started server on the same directory state, with the same open
    documents replayed, must show the same canonical view;
  * MODEL correspondence at every quiescent point: a second fresh server with the `[lint]` table removed (all default
    severities, nothing hidden, related information on) gives the raw current diagnostics; the extracted Coq model
    run on (raw diagnostics, severity changes) predicts the notification stream; every predicted notification must be
    on the wire with the same canonical content and every other notification on the wire must not change the view.
"""
import concurrent.futures
import fnmatch
import hashlib
import json
import os
import random
import re
import shutil
import subprocess
import time

from vlib.common import *
from vlib import lsp

PROP = "C14"
REL_OFFSET = 1000000          # message id of "related: <m>" in the interned encoding (see ocaml/c14_run.ml)

WARNING_CODES = {"unused", "unnecessary_work_library", "unassociated_context", "missing_in_sensitivity_list",
                 "superfluous_in_sensitivity_list"}
SEV_NUM = {"hint": 1, "info": 2, "warning": 3, "error": 4}         # encoding of the model runner (0 = hidden)


def error_codes():
    """All ErrorCode variants in snake case (the spelling of `[lint]` keys and of lsp `code`); `related` first."""
    text = open(os.path.join(REPO, "vhdl_lang/src/data/error_codes.rs"), encoding="utf-8").read()
    m = re.search(r"pub enum ErrorCode \{(.*?)\n\}", text, re.S)
    names = re.findall(r"^\s{4}([A-Z][A-Za-z0-9]*),\s*$", m.group(1), re.M)
    snake = [re.sub(r"(?<!^)(?=[A-Z])", "_", n).lower() for n in names]
    snake = ["related"] + [c for c in snake if c != "related"]
    return snake


def default_severity(code):
    if code == "related":
        return 1
    return 3 if code in WARNING_CODES else 4


def severities_of(cfg, codes):
    """Independent re-statement of Config::read_severity_overwrites over the default map -> list of 0..4 per code."""
    sev = [default_severity(c) for c in codes]
    if cfg.get("broken") or cfg.get("missing"):
        return sev
    for k, v in (cfg.get("lint") or {}).items():
        i = codes.index(k)
        if v is False:
            sev[i] = 0
        elif v is True:
            pass
        else:
            sev[i] = SEV_NUM[v]
    return sev


# --------------------------------------------------------------------------------------------------
# configuration files
# --------------------------------------------------------------------------------------------------
def toml_of(cfg, absolute_root=None, with_lint=True):
    if cfg.get("broken"):
        return "[libraries\nlib.files = [\n"
    out = ["[libraries]"]
    for name in sorted(cfg["libraries"]):
        pats = cfg["libraries"][name]
        if absolute_root:
            pats = [os.path.join(absolute_root, p) for p in pats]
        out.append("%s.files = [%s]" % (name, ", ".join("'%s'" % p for p in pats)))
        if name in (cfg.get("third_party") or []):
            out.append("%s.is_third_party = true" % name)
    if with_lint and cfg.get("lint"):
        out.append("[lint]")
        for k in sorted(cfg["lint"]):
            v = cfg["lint"][k]
            out.append("%s = %s" % (k, ("true" if v else "false") if isinstance(v, bool) else "'%s'" % v))
    return "\n".join(out) + "\n"


def member(cfg, rel):
    if cfg.get("broken") or cfg.get("missing"):
        return False
    return any(fnmatch.fnmatchcase(rel, p) and ("/" in rel) == ("/" in p)
               for pats in cfg["libraries"].values() for p in pats)


# --------------------------------------------------------------------------------------------------
# catalogue of small VHDL files (ASCII only) and session generator
# --------------------------------------------------------------------------------------------------
ENT_HEAD = "entity e is\n  port (clk : in bit; d : in bit; q : out bit);\nend entity;\n\n"
CAT = {
    "ent": {
        "clean": ENT_HEAD + "architecture rtl of e is\nbegin\n  q <= d;\nend architecture;\n",
        "unused": ENT_HEAD + "architecture rtl of e is\n  signal unused_sig : bit;\nbegin\n  q <= d;\nend architecture;\n",
        "missing": ENT_HEAD + "architecture rtl of e is\nbegin\n  p : process (clk)\n  begin\n    q <= d and clk;\n  end process;\nend architecture;\n",
        "superfluous": ENT_HEAD + "architecture rtl of e is\nbegin\n  p : process (clk, d)\n  begin\n    q <= d;\n  end process;\nend architecture;\n",
        "syntax": "entity e is\n  port (clk : in bit; d : in bit; q : out bit)\nend entity;\n\narchitecture rtl of e is\nbegin\n  q <= d;\nend architecture;\n",
        "unresolved": ENT_HEAD + "architecture rtl of e is\n  signal s : missing_t;\nbegin\n  q <= d;\nend architecture;\n",
        "both": ENT_HEAD + "architecture rtl of e is\n  signal unused_sig : bit;\n  signal s2 : bit;\nbegin\n  p : process (clk)\n  begin\n    q <= d and s2;\n  end process;\nend architecture;\n",
        "empty": "",
    },
    "pkg": {
        "clean": "package pkg is\n  constant c : natural := 1;\nend package;\n",
        "syntax": "package pkg is\n  constant c : natural := 1\nend package;\n",
        "unresolved": "package pkg is\n  constant c : natural := 1;\n  constant k : missing_t := 2;\nend package;\n",
        "noc": "package pkg is\n  constant other : natural := 1;\nend package;\n",
        "dup": "package pkg is\n  constant c : natural := 1;\n  constant c : natural := 2;\nend package;\n",
    },
    "body": {
        "dup": "package body pkg is\n  constant c : natural := 2;\nend package body;\n",
        "clean": "package body pkg is\nend package body;\n",
        "unused": "package body pkg is\n  constant hidden : natural := 2;\nend package body;\n",
    },
    "top": {
        "clean": "use work.pkg.all;\nentity top is\nend entity;\narchitecture a of top is\n  signal x, y : bit;\n  constant w : natural := c;\nbegin\n  i : entity work.e port map (clk => x, d => x, q => y);\nend architecture;\n",
        "badname": "use work.pkg.all;\nentity top is\nend entity;\narchitecture a of top is\n  signal x, y : bit;\nbegin\n  i : entity work.e port map (clk => x, d => nothing, q => y);\nend architecture;\n",
        "unused": "entity top is\nend entity;\narchitecture a of top is\n  signal x, y, z : bit;\nbegin\n  i : entity work.e port map (clk => x, d => x, q => y);\nend architecture;\n",
        "lib2": "library lib2;\nuse lib2.pkg2.all;\nentity top is\nend entity;\narchitecture a of top is\n  signal x, y : bit;\n  constant w : natural := c2;\nbegin\n  i : entity work.e port map (clk => x, d => x, q => y);\nend architecture;\n",
        "syntax": "entity top is\nend entity;\narchitecture a of top is\nbegin\n  i : entity work.e port map (clk => x, d => x, q => y;\nend architecture;\n",
    },
    "pkg2": {
        "clean": "package pkg2 is\n  constant c2 : natural := 1;\nend package;\n",
        "syntax": "package pkg2 is\n  constant c2 : natural := 1;\n  constant\nend package;\n",
        "noc": "package pkg2 is\nend package;\n",
    },
    "new": {
        "clean": "entity n@ is\nend entity;\n",
        "syntax": "entity n@ is\nend entity\n",
        "unused": "entity n@ is\nend entity;\narchitecture a of n@ is\n  signal lonely : bit;\nbegin\nend architecture;\n",
        "unresolved": "entity n@ is\nend entity;\narchitecture a of n@ is\n  signal s : nope_t;\nbegin\nend architecture;\n",
    },
    "np": {
        "err": "entity x is\nend entity;\narchitecture a of x is\n  signal s : nope;\nbegin\nend architecture;\n",
        "clean": "entity x is\nend entity;\n",
        "syntax": "entity x is\nend entity\n",
    },
}
FAMILY_OF = {"ent.vhd": "ent", "pkg.vhd": "pkg", "body.vhd": "body", "top.vhd": "top", "l2/pkg2.vhd": "pkg2",
             "np/x.vhd": "np"}
LINT_CODES = ["unused", "missing_in_sensitivity_list", "superfluous_in_sensitivity_list", "unresolved",
              "syntax_error", "duplicate", "related"]
LINT_VALUES = ["error", "warning", "info", "hint", False, False, True]


def variant(rng, family, tag=None):
    texts = CAT[family]
    key = rng.choice(sorted(texts))
    t = texts[key]
    if tag is not None:
        t = t.replace("@", str(tag))
    shift = rng.choice([0, 0, 0, 1, 2, 3])
    return "".join("-- c%d\n" % i for i in range(shift)) + t


def offset_to_pos(text, off):
    line = text.count("\n", 0, off)
    col = off - (text.rfind("\n", 0, off) + 1)
    return line, col


def ranged_change(old, new):
    """One ranged content change turning `old` into `new` (ASCII texts: UTF-16 columns = byte columns)."""
    p = 0
    while p < len(old) and p < len(new) and old[p] == new[p]:
        p += 1
    s = 0
    while s < len(old) - p and s < len(new) - p and old[len(old) - 1 - s] == new[len(new) - 1 - s]:
        s += 1
    l1, c1 = offset_to_pos(old, p)
    l2, c2 = offset_to_pos(old, len(old) - s)
    return {"range": [l1, c1, l2, c2], "text": new[p:len(new) - s]}


def gen_lint(rng):
    lint = {}
    for code in LINT_CODES:
        if rng.random() < 0.45:
            lint[code] = rng.choice(LINT_VALUES)
    return lint


def gen_libraries(rng, disk, keep, main=None):
    """A library mapping over the files on disk; files in `keep` (open documents) stay members.  The main library
    is called lib or mylib, one file may live in a library of its own (`extra`)."""
    root_files = sorted(f for f in disk if "/" not in f)
    l2_files = sorted(f for f in disk if f.startswith("l2/"))
    main = main or rng.choice(["lib", "lib", "lib", "mylib"])
    libs = {}
    if rng.random() < 0.65:
        libs[main] = ["*.vhd"]
    else:
        chosen = [f for f in root_files if f in keep or rng.random() < 0.8]
        if len(chosen) > 1 and rng.random() < 0.4:
            moved = rng.choice(chosen)
            chosen.remove(moved)
            libs["extra"] = [moved]
        libs[main] = chosen or ["*.vhd"]
    if any(f in keep for f in l2_files) or rng.random() < 0.7:
        libs["lib2"] = ["l2/*.vhd"]
    if rng.random() < 0.15:
        libs[main] = libs[main] + ["np/*.vhd"]         # the directory of the "non-project" documents joins the project
    return libs


def drop_from_config(cfg, disk, f):
    """The configuration with file `f` taken out of every library (explicit lists instead of globs)."""
    new = json.loads(json.dumps(cfg))
    libs = {}
    for name, pats in cfg["libraries"].items():
        files = sorted(g for g in disk if g != f and any(fnmatch.fnmatchcase(g, p) and ("/" in g) == ("/" in p) for p in pats))
        if files:
            libs[name] = files
    new["libraries"] = libs
    new["third_party"] = [n for n in (cfg.get("third_party") or []) if n in libs]
    return new


def gen_third_party(rng, libs):
    return sorted(n for n in libs if rng.random() < 0.2)


def retouch_libraries(rng, cfg):
    """The same files, other options: toggle is_third_party, rename the main library, move one explicitly listed
    file to a library of its own or back (no file is added: such a reload reads nothing new from disk)."""
    libs = {k: list(v) for k, v in cfg["libraries"].items()}
    tp = set(cfg.get("third_party") or [])
    what = rng.choice(["third_party", "third_party", "rename", "move"])
    main = "mylib" if "mylib" in libs else "lib"
    if what == "rename" and main in libs:
        other = "lib" if main == "mylib" else "mylib"
        libs[other] = libs.pop(main)
        if main in tp:
            tp.discard(main)
            tp.add(other)
    elif what == "move" and "extra" in libs and main in libs and libs[main] != ["*.vhd"]:
        libs[main] = sorted(libs[main] + libs.pop("extra"))
        tp.discard("extra")
    elif what == "move" and main in libs and libs[main] != ["*.vhd"] and len(libs[main]) > 1 and "extra" not in libs:
        moved = rng.choice(libs[main])
        libs[main].remove(moved)
        libs["extra"] = [moved]
    else:
        name = rng.choice(sorted(libs))
        tp.symmetric_difference_update({name})
    return libs, sorted(tp & set(libs))


CFG = "vhdl_ls.toml"


def other_events(rng, disk, p):
    """didChangeWatchedFiles events (Created 1 / Changed 2 / Deleted 3) for files other than the configuration
    file; the file system is not touched: the server ignores them."""
    return [[rng.choice(sorted(disk)), rng.choice([1, 2, 3])] for _ in range(2) if rng.random() < p]


def gen_session(rng, name, steps_lo=3, steps_hi=25, full_p=0.15):
    disk = {"ent.vhd": variant(rng, "ent"), "pkg.vhd": variant(rng, "pkg"), "top.vhd": variant(rng, "top"),
            "l2/pkg2.vhd": variant(rng, "pkg2"), "np/x.vhd": variant(rng, "np")}
    if rng.random() < 0.5:
        disk["body.vhd"] = variant(rng, "body")
    family = dict(FAMILY_OF)
    cfg = {"libraries": gen_libraries(rng, disk, set()), "lint": gen_lint(rng)}
    cfg["third_party"] = gen_third_party(rng, cfg["libraries"])
    if rng.random() < 0.12:
        cfg["missing"] = True          # the server starts without vhdl_ls.toml; the file is created later
    sess = {"name": name, "nolint": rng.random() < 0.05, "rel": rng.random() < 0.6,
            "libs": "full" if rng.random() < full_p else "std", "files": dict(disk), "config": json.loads(json.dumps(cfg)), "steps": []}
    n = rng.randint(steps_lo, steps_hi)
    kinds = rng.choices(["open", "open_np", "change", "config", "watched", "create", "rename", "delete", "leave"],
                        weights=[16, 5, 34, 24, 3, 7, 6, 6, 5], k=n)
    opened = {}           # rel -> current text (insertion ordered)
    counter = 0
    target = None
    pending = []          # step kinds queued by a life cycle (leave the project, edit while outside, come back)
    i = -1
    while i + 1 < len(kinds) or pending:
        target = None
        if pending:
            kind = pending.pop(0)
        else:
            i += 1
            kind = kinds[i]
        if kind == "leave":
            # life cycle of an open document: it leaves the project by a configuration rewrite (or is a non-project
            # document hit by a reload), is edited while outside, and is mapped to a library again later
            cands = [f for f in sorted(opened) if member(cfg, f)]
            if cands and not (cfg.get("broken") or cfg.get("missing")):
                f = rng.choice(cands)
                new = drop_from_config(cfg, disk, f) if rng.random() < 0.8 else dict(json.loads(json.dumps(cfg)), broken=True)
                cfg = new
                sess["steps"].append({"op": "config", "config": json.loads(json.dumps(cfg)), "events": [[CFG, 2]]})
                pending = [("change_of", f)] * rng.choice([1, 1, 2]) + rng.choice([["config_back"], ["config_back"], ["change", "config_back"]])
                continue
            kind = "open"
        if isinstance(kind, tuple) or kind == "change":
            target = kind[1] if isinstance(kind, tuple) else None
            kind = "change"
        if kind == "config_back":
            new = json.loads(json.dumps(cfg))
            new.pop("broken", None)
            new.pop("missing", None)
            new["libraries"] = gen_libraries(rng, disk, set(opened), main=rng.choice(["lib", "mylib"]))
            if rng.random() < 0.5:          # the documents may come back into another library
                for f in sorted(opened):
                    if "/" not in f and new["libraries"].get("lib", new["libraries"].get("mylib")) != ["*.vhd"] and rng.random() < 0.3:
                        for pats in new["libraries"].values():
                            if f in pats and len(pats) > 1:
                                pats.remove(f)
                                new["libraries"].setdefault("extra", []).append(f)
                                break
            if any(f.startswith("np/") for f in opened) and not any("np/*.vhd" in p for p in new["libraries"].values()):
                k = sorted(new["libraries"])[0]
                new["libraries"][k] = new["libraries"][k] + ["np/*.vhd"]
            new["third_party"] = gen_third_party(rng, new["libraries"])
            cfg = new
            sess["steps"].append({"op": "config", "config": json.loads(json.dumps(cfg)), "events": [[CFG, rng.choice([2, 2, 1])]]})
            continue
        if kind == "open":
            cands = [f for f in sorted(disk) if f not in opened and member(cfg, f)]
            if not cands:
                kind = "change"
            else:
                f = rng.choice(cands)
                text = disk[f] if rng.random() < 0.7 else variant(rng, family[f], family.get(("tag", f)))
                opened[f] = text
                sess["steps"].append({"op": "open", "path": f, "text": text})
                continue
        if kind == "open_np":
            # a document outside the project (never seen by the server, or a former member): analysed in an anonymous
            # library until the next reload, edited meanwhile, possibly added to the configuration later
            cands = [f for f in sorted(disk) if f not in opened and not member(cfg, f)]
            if not cands:
                kind = "change"
            else:
                f = rng.choice(cands)
                opened[f] = disk[f]
                sess["steps"].append({"op": "open", "path": f, "text": disk[f]})
                if not pending and rng.random() < 0.6:
                    pending = [("change_of", f)] + rng.choice([[], ["config"]]) + [("change_of", f), "config_back"]
                continue
        if kind == "change":
            if not opened:
                kind = "config"
            else:
                f = target if target in opened else rng.choice(sorted(opened))
                old = opened[f]
                new = variant(rng, family[f], family.get(("tag", f)))
                mode = rng.choice(["full", "ranged", "ranged", "two"])
                if mode == "full":
                    changes = [{"range": None, "text": new}]
                elif mode == "ranged":
                    changes = [ranged_change(old, new)]
                else:
                    mid = variant(rng, family[f], family.get(("tag", f)))
                    changes = [ranged_change(old, mid), ranged_change(mid, new)]
                opened[f] = new
                sess["steps"].append({"op": "change", "path": f, "changes": changes, "result": new})
                continue
        if kind == "config":
            # open documents usually stay in the project; sometimes the rewrite drops them (they are edited outside and
            # may come back later)
            members_open = {f for f in opened if member(cfg, f)} if rng.random() < 0.7 else set()
            opened_guard = opened if rng.random() < 0.7 else {}
            r = rng.random()
            new = json.loads(json.dumps(cfg))
            new.pop("broken", None)
            new.pop("missing", None)
            if r < 0.04 and not opened_guard:
                new["broken"] = True
            elif r < 0.12 and not opened_guard and not cfg.get("missing"):
                new["missing"] = True
            elif r < 0.50 and not (cfg.get("broken") or cfg.get("missing")):
                new["lint"] = gen_lint(rng)
            elif r < 0.75 and not (cfg.get("broken") or cfg.get("missing")):
                new["libraries"], new["third_party"] = retouch_libraries(rng, cfg)
            else:
                new["libraries"] = gen_libraries(rng, disk, members_open)
                new["third_party"] = gen_third_party(rng, new["libraries"])
                if rng.random() < 0.5:
                    new["lint"] = gen_lint(rng)
            # the FileChangeType(s) the client reports for vhdl_ls.toml: Created when it did not exist, Deleted when it
            # is removed, otherwise Changed, or Created alone (rename over the old file), or Deleted+Created in one
            # notification (an editor's write-temp-and-rename)
            if cfg.get("missing") and not new.get("missing"):
                types = [1]
            elif new.get("missing"):
                types = [3]
            else:
                types = rng.choice([[2], [2], [2], [1], [3, 1], [3, 1]])
            cfg = new
            events = [[CFG, t] for t in types]
            for ev in other_events(rng, disk, 0.15):          # mixed batch
                events.insert(rng.randint(0, len(events)), ev)
            sess["steps"].append({"op": "config", "config": json.loads(json.dumps(cfg)), "events": events})
            continue
        if kind == "watched":
            sess["steps"].append({"op": "watched", "events": other_events(rng, disk, 0.5) or [[rng.choice(sorted(disk)), 2]]})
            continue
        if kind == "create":
            counter += 1
            f = ("l2/" if rng.random() < 0.25 else "") + "new%d.vhd" % counter
            family[f] = "new"
            family[("tag", f)] = counter
            disk[f] = variant(rng, "new", counter)
            sess["steps"].append({"op": "create", "path": f, "text": disk[f]})
            continue
        cands = [f for f in sorted(disk) if f not in opened and not f.startswith("np/")]
        if not cands:
            sess["steps"].append({"op": "watched", "events": [[rng.choice(sorted(disk)), rng.choice([1, 2, 3])]]})
            continue
        f = rng.choice(cands)
        if kind == "rename":
            counter += 1
            g = os.path.join(os.path.dirname(f), "r%d.vhd" % counter)
            disk[g] = disk.pop(f)
            family[g] = family[f]
            if ("tag", f) in family:
                family[("tag", g)] = family[("tag", f)]
            sess["steps"].append({"op": "rename", "from": f, "to": g})
        else:
            disk.pop(f)
            sess["steps"].append({"op": "delete", "path": f})
    return sess


# --------------------------------------------------------------------------------------------------
# spelling of the workspace: directory and file names with characters that need (or do not need) percent-encoding,
# and the way the client spells its URIs
# --------------------------------------------------------------------------------------------------
WS_POOL = ["ws", "my project", "caf\u00e9_ws", "a#b", "50%done", "x+y&z", "Paren (1)", "ws%20enc",
           "\u6f22\u5b57 \u00fc/Nested Dir/ws", "MiXed/CASE ws"]
DECO_POOL = ["", "", " v2", "\u00e9", "#1", "%41", "+x", "&co", "(1)", "_\u00dc"]
DDECO_POOL = ["", "", " dir", "\u00e9"]
URI_STYLES = ["canonical", "canonical", "lower", "over", "localhost", "dot", "mixed"]
# what url::Url::from_file_path leaves alone in a path segment (everything else of ASCII is percent-encoded, as are
# all non-ASCII bytes): PATH_SEGMENT = controls, space, " # < > ? ` { } / %
URI_SAFE = "/!$&'()*+,:;=@[]|^"


def file_uri(path, style="canonical", rng=None):
    """A file URI for an absolute path: canonical = the encoding of url::Url::from_file_path; the other styles are
    legal spellings of the same URI (lower-case escapes, needlessly escaped characters, explicit localhost,
    a `.` / `x/..` path component)."""
    if style == "mixed":
        style = (rng or random).choice(["canonical", "lower", "over", "localhost", "dot"])
    if style == "dot":
        head, tail = os.path.split(path)
        path = head + "/./x/../" + tail
    from urllib.parse import quote
    q = quote(path, safe=URI_SAFE)
    if style == "lower":
        q = re.sub(r"%[0-9A-F]{2}", lambda m: m.group(0).lower(), q)
    elif style == "over":
        q = q.replace("+", "%2B").replace("&", "%26").replace("(", "%28").replace(")", "%29").replace("_", "%5f")
        q = re.sub(r"v(?=hd$)", "%76", q)
    return ("file://localhost" if style == "localhost" else "file://") + q


def spell_path(rel, sp, pattern=False):
    parts = rel.split("/")
    dirs = [p + sp["ddeco"] for p in parts[:-1]]
    base = parts[-1]
    if base.endswith(".vhd") and not (pattern and "*" in base):
        base = base[:-4] + sp["deco"] + ".vhd"
    return "/".join(dirs + [base])


def spell_config(cfg, sp):
    new = json.loads(json.dumps(cfg))
    if "libraries" in new:
        new["libraries"] = {n: [spell_path(p, sp, pattern=True) for p in pats] for n, pats in new["libraries"].items()}
    return new


def spell_session(sess, sp):
    """The same session in a workspace whose directory / file names are decorated from the pools."""
    out = json.loads(json.dumps(sess))
    out["name"] = "%s @ %s|%s|%s|%s" % (sess.get("name"), sp["ws"], sp["deco"], sp["ddeco"], sp["uri_style"])
    out["ws"] = sp["ws"]
    out["uri_style"] = sp["uri_style"]
    out["files"] = {spell_path(k, sp): v for k, v in sess["files"].items()}
    out["config"] = spell_config(sess["config"], sp)
    for st in out["steps"]:
        for key in ("path", "from", "to"):
            if key in st:
                st[key] = spell_path(st[key], sp)
        if "config" in st:
            st["config"] = spell_config(st["config"], sp)
        if "events" in st:
            st["events"] = [[spell_path(e, sp), t] for e, t in st["events"]]
    return out


def gen_spelling(rng):
    return {"ws": rng.choice(WS_POOL), "deco": rng.choice(DECO_POOL), "ddeco": rng.choice(DDECO_POOL),
            "uri_style": rng.choice(URI_STYLES)}


def ls_initialize(ls, root_uri, caps):
    """initialize / initialized with an explicitly spelled rootUri (vlib.lsp.LS.initialize sends the raw path)."""
    _resp, others = ls.call("initialize", {"processId": None, "rootUri": root_uri, "capabilities": caps}, 120.0)
    ls.notify("initialized", {})
    others += ls.sync(120.0)
    return others


# --------------------------------------------------------------------------------------------------
# running one session against the binary
# --------------------------------------------------------------------------------------------------
def caps_of(rel):
    return {"textDocument": {"publishDiagnostics": {"relatedInformation": bool(rel)}}}


def pubs(messages):
    return [(m["params"]["uri"], m["params"]["diagnostics"]) for m in messages
            if isinstance(m, dict) and m.get("method") == "textDocument/publishDiagnostics"]


def canon_list(ds):
    return sorted(lsp.canon_diag(d) for d in ds)


def fresh_view(binpath, root, opens, rel, nolint, libs):
    """View of a freshly started server on directory `root` after replaying didOpen for the open documents."""
    env = dict(os.environ)
    env["RAYON_NUM_THREADS"] = "2"       # many short-lived servers run side by side
    ls = lsp.LS(binpath, root, libraries=libs, extra_args=(["--no-lint"] if nolint else []), env=env)
    try:
        others = ls_initialize(ls, file_uri(root), caps_of(rel))
        view = lsp.publish_map(others)
        for path, text in opens:
            ls.notify("textDocument/didOpen",
                      {"textDocument": {"uri": file_uri(path), "languageId": "vhdl", "version": 0, "text": text}})
            lsp.publish_map(ls.sync(), view)
        ls.shutdown()
        return view
    except Exception:
        ls.kill()
        raise


def std_libs_dir():
    d = os.path.join(rundir(PROP), "libs_std")
    p = os.path.join(d, "vhdl_ls.toml")
    text = "[libraries]\nstd.files = ['%s/std/*.vhd']\nstd.is_third_party = true\n" % lsp.VHDL_LIBRARIES
    if not os.path.exists(p) or open(p).read() != text:
        os.makedirs(d, exist_ok=True)
        with open(p + ".tmp%d" % os.getpid(), "w") as f:
            f.write(text)
        os.replace(p + ".tmp%d" % os.getpid(), p)
    return d


def write_file(path, text, encoding="latin-1"):
    os.makedirs(os.path.dirname(path), exist_ok=True)
    with open(path, "w", encoding=encoding, newline="") as f:
        f.write(text)


def write_config(root, shadow, cfg):
    for d, absolute, lint in ((root, None, True), (shadow, root, False)):
        p = os.path.join(d, "vhdl_ls.toml")
        if cfg.get("missing"):
            if os.path.exists(p):
                os.remove(p)
        else:
            write_file(p, toml_of(cfg, absolute_root=absolute, with_lint=lint), encoding="utf-8")


def run_session(sess, binpath, wsdir, codes, stop_at=None):
    """Drives the live server through the session.  Returns a dict with one record per quiescent point:
       observed notifications, canonical client view, fresh view, raw fresh view, model events."""
    root = os.path.join(wsdir, sess.get("ws", "ws"))
    shadow = root + ".raw"
    style = sess.get("uri_style", "canonical")
    urng = random.Random(len(sess["steps"]) * 7919 + len(root))

    def U(path):          # the client's spelling of the URI of a file
        return file_uri(path, style, urng)

    for d in (root, shadow):
        shutil.rmtree(d, ignore_errors=True)
        os.makedirs(d)
    for rel_path, text in sess["files"].items():
        write_file(os.path.join(root, rel_path), text)
    cfg = sess["config"]
    write_config(root, shadow, cfg)
    rel, nolint = sess["rel"], sess["nolint"]
    outside = bool(sess.get("outside_claim"))
    out = {"points": [], "died": None, "source_bad": None, "outside_edits": 0, "reentries_after_outside_edit": 0}
    edited_outside = set()
    opens = []          # [(abs path, text)] in didOpen order: the client's documents with their CURRENT text
    # What the server does with an open document depends on the project: a member of the configuration is analysed in
    # its libraries with the document text; a document the server had never seen and that is in no library is put
    # into an anonymous library until the next reload (`anon`); any other document outside the configuration has no
    # library and is not analysed (its text is still tracked and used when it is mapped to a library again).  The
    # fresh server is given the documents of the first two kinds, with the client's current text.
    disk = set(sess["files"])
    known = {f for f in disk if member(cfg, f)}
    anon = set()

    def replayed():
        return [(p, t) for p, t in opens
                if member(cfg, os.path.relpath(p, root)) or os.path.relpath(p, root) in anon]

    view = {}
    # the installed libraries: the full set of /repo/vhdl_libraries (std + ieee, ~0.3 s to load per server start) or
    # std only (the generated files use nothing else)
    libs = lsp.VHDL_LIBRARIES if sess.get("libs") == "full" else std_libs_dir()
    live = lsp.LS(binpath, root, libraries=libs, extra_args=(["--no-lint"] if nolint else []))
    pool = concurrent.futures.ThreadPoolExecutor(max_workers=2)

    def quiescent(step_index, step, messages, publishes, reload):
        prev = lsp.canon_view(view)
        obs = pubs(messages)
        for _u, ds in obs:
            for d in ds:
                if d.get("source") != "vhdl ls":
                    out["source_bad"] = d
        lsp.publish_map(messages, view)
        rec = {"step": step_index, "op": step["op"] if step else "init", "obs": obs, "prev": prev,
               "view": lsp.canon_view(view), "publishes": publishes, "reload": reload,
               "sev": severities_of(cfg, codes)}
        # raw current diagnostics: a second fresh server without the [lint] table; when nothing is hidden and
        # related information is on, the fresh view itself carries them (severities are ignored by the encoder)
        need_raw = not nolint and not (rel and 0 not in rec["sev"])
        f1 = pool.submit(fresh_view, binpath, root, replayed(), rel, nolint, libs)
        f2 = pool.submit(fresh_view, binpath, shadow, replayed(), True, False, libs) if need_raw else None
        fv = f1.result()
        rec["fresh"] = lsp.canon_view(fv)
        rec["raw"] = f2.result() if f2 else ({} if nolint else fv)
        rec["fresh_servers"] = 2 if f2 else 1
        out["points"].append(rec)

    try:
        others = ls_initialize(live, file_uri(root, "canonical" if style == "dot" else style, urng), caps_of(rel))
        quiescent(-1, None, others, True, False)
        for i, step in enumerate(sess["steps"]):
            if stop_at is not None and i > stop_at:
                break
            op = step["op"]
            publishes, reload = True, False
            if op == "open":
                p = os.path.join(root, step["path"])
                live.notify("textDocument/didOpen",
                            {"textDocument": {"uri": U(p), "languageId": "vhdl", "version": 0, "text": step["text"]}})
                opens.append((p, step["text"]))
                if not member(cfg, step["path"]) and step["path"] not in known:
                    anon.add(step["path"])
                known.add(step["path"])
            elif op == "change":
                p = os.path.join(root, step["path"])
                chs = []
                for c in step["changes"]:
                    if c["range"] is None:
                        chs.append({"text": c["text"]})
                    else:
                        l1, c1, l2, c2 = c["range"]
                        chs.append({"range": {"start": {"line": l1, "character": c1}, "end": {"line": l2, "character": c2}},
                                    "text": c["text"]})
                live.notify("textDocument/didChange",
                            {"textDocument": {"uri": U(p), "version": i + 1}, "contentChanges": chs})
                opens[:] = [(q, step["result"] if q == p else t) for q, t in opens]
                if not member(cfg, step["path"]) and step["path"] not in anon:
                    out["outside_edits"] += 1
                    edited_outside.add(step["path"])
            elif op == "config":
                cfg = step["config"]
                write_config(root, shadow, cfg)
                events = step.get("events")
                if events is None:        # older replay files
                    events = [[CFG, 2]] + [[e, 2] for e in step.get("extra", [])]
                live.notify("workspace/didChangeWatchedFiles",
                            {"changes": [{"uri": U(os.path.join(root, e)), "type": t} for e, t in events]})
                reload = True
            elif op == "watched":
                events = step.get("events") or [[e, 2] for e in step.get("paths", [])]
                live.notify("workspace/didChangeWatchedFiles",
                            {"changes": [{"uri": U(os.path.join(root, e)), "type": t} for e, t in events]})
                publishes = False
            elif op == "create":
                write_file(os.path.join(root, step["path"]), step["text"])
                disk.add(step["path"])
                live.notify("workspace/didCreateFiles", {"files": [{"uri": U(os.path.join(root, step["path"]))}]})
                reload = True
            elif op == "rename":
                os.rename(os.path.join(root, step["from"]), os.path.join(root, step["to"]))
                disk.discard(step["from"])
                disk.add(step["to"])
                live.notify("workspace/didRenameFiles",
                            {"files": [{"oldUri": U(os.path.join(root, step["from"])),
                                        "newUri": U(os.path.join(root, step["to"]))}]})
                reload = True
            elif op == "delete":
                os.remove(os.path.join(root, step["path"]))
                disk.discard(step["path"])
                live.notify("workspace/didDeleteFiles", {"files": [{"uri": U(os.path.join(root, step["path"]))}]})
                reload = True
            else:
                raise ValueError("unknown op %r" % op)
            if reload:
                back = {f for f in edited_outside if member(cfg, f)}
                out["reentries_after_outside_edit"] += len(back)
                edited_outside -= back
                anon.clear()
                known |= {f for f in disk if member(cfg, f)}
            quiescent(i, step, live.sync(), publishes, reload)
        live.shutdown()
    except lsp.ServerDied as ex:
        out["died"] = str(ex)[:500]
        live.kill()
    finally:
        pool.shutdown(wait=False)
        if live.alive():
            live.kill()
    out["outside_claim"] = outside
    return out


# --------------------------------------------------------------------------------------------------
# model input / output
# --------------------------------------------------------------------------------------------------
class Intern:
    def __init__(self):
        self.ids = {}
        self.items = [None]       # ids start at 1 (0 = "no Url" for files)

    def __call__(self, x):
        i = self.ids.get(x)
        if i is None:
            i = len(self.items)
            self.ids[x] = i
            self.items.append(x)
        return i


def model_line(sess, run, codes, reorder):
    """Encodes the session for ocaml/c14_run.ml; returns (line, decode tables, list of publish point indices)."""
    U, R, M = Intern(), Intern(), Intern()

    def enc_diag(u, d):
        code = str(d.get("code"))
        rel = sorted((U(r["location"]["uri"]), R(json.dumps(r["location"]["range"], sort_keys=True)), M(r["message"]))
                     for r in (d.get("relatedInformation") or []))
        toks = [U(u), R(json.dumps(d["range"], sort_keys=True)), M(d["message"]), codes.index(code), len(rel)]
        for t in rel:
            toks += list(t)
        return toks

    events = []
    points = []
    first = True
    sev0 = None
    for k, rec in enumerate(run["points"]):
        if first:
            sev0 = rec["sev"]
            first = False
        elif rec["reload"]:
            events.append("S " + " ".join(str(x) for x in rec["sev"]))
            points.append(None)
        if rec["publishes"]:
            ds = []
            for u in sorted(rec["raw"]):
                encs = sorted(enc_diag(u, d) for d in rec["raw"][u])
                ds += [" ".join(str(x) for x in e) for e in encs]
            events.append("P " + ",".join(ds))
            points.append(k)
    hdr = "%d %d 1 %d %d" % (1 if sess["nolint"] else 0, 1 if sess["rel"] else 0, len(codes), reorder)
    line = hdr + "|" + " ".join(str(x) for x in sev0) + "|" + ";".join(events)
    return line, (U, R, M), points


def decode_trace(text, tables, codes):
    """Result line of the runner -> list (per event) of None (crash) or {uri: canonical sorted diagnostics}."""
    U, R, M = tables

    def msg(i):
        return "related: " + M.items[i - REL_OFFSET] if i >= REL_OFFSET else M.items[i]

    res = []
    for ev in text.strip().split(";"):
        toks = ev.split()
        if toks == ["C"]:
            res.append(None)
            continue
        it = iter(int(t) for t in toks)
        n = next(it)
        notes = {}
        for _ in range(n):
            u = U.items[next(it)]
            m = next(it)
            ds = []
            for _ in range(m):
                rng_, sv, code, ms, nrel = next(it), next(it), next(it), next(it), next(it)
                rel = []
                for _ in range(nrel):
                    ru, rr, rm = next(it), next(it), next(it)
                    rel.append((U.items[ru], R.items[rr], msg(rm)))
                ds.append((R.items[rng_], sv, codes[code], msg(ms), tuple(sorted(rel))))
            notes[u] = sorted(ds)
        res.append(notes)
    return res


def coq_of_line(line, result):
    """The same session as a closed Coq term pair (events, expected trace) for the in-Coq evaluation."""
    hdr, sev0, evs = line.split("|")
    nolint, rel, _fixed, ncodes, reorder = [int(x) for x in hdr.split()]
    if reorder != 0:
        return None

    def sev_term(vals):
        names = {0: "None", 1: "Some Hint", 2: "Some Info", 3: "Some Warning", 4: "Some Error"}
        return "(NInst.table_sev [%s] None)" % "; ".join("(%d, %s)" % (i, names[int(v)]) for i, v in enumerate(vals.split()))

    events = []
    for ev in evs.split(";"):
        ev = ev.strip()
        if not ev:
            continue
        if ev[0] == "S":
            events.append("SetSeverity %s" % sev_term(ev[1:]))
        else:
            ds = []
            for d in [x for x in ev[1:].split(",") if x.strip()]:
                t = [int(x) for x in d.split()]
                rel_l = ["(%d, %d, %d)" % tuple(t[5 + 3 * j: 8 + 3 * j]) for j in range(t[4])]
                ds.append("mkDiag %d %d %d [%s] %d" % (t[0], t[1], t[2], "; ".join(rel_l), t[3]))
            events.append("Publish [%s]" % "; ".join(ds))
    exp = []
    for ev in result.strip().split(";"):
        toks = ev.split()
        if toks == ["C"]:
            exp.append("Crash")
            continue
        it = iter(int(t) for t in toks)
        n = next(it)
        notes = []
        for _ in range(n):
            u = next(it)
            m = next(it)
            ls = []
            for _ in range(m):
                r, sv, code, ms, nrel = next(it), next(it), next(it), next(it), next(it)
                rel_l = ["(%d, %d, %d)" % (next(it), next(it), next(it)) for _ in range(nrel)]
                ls.append("mkLsp %d %d %d %d [%s]" % (r, sv, code, ms, "; ".join(rel_l)))
            notes.append("(%d, [%s])" % (u, "; ".join(ls)))
        exp.append("Ok [%s]" % "; ".join(notes))
    st = "(mkSettings %s %s)" % ("true" if nolint else "false", "true" if rel else "false")
    return "(%d%%nat, %s, %s, [%s], [%s])" % (ncodes, st, sev_term(sev0), "; ".join(events), "; ".join(exp))


COQ_PREAMBLE = """From Coq Require Import List NArith Bool.
Import ListNotations.
From RH Require Import Lsp.DiagCache.
Open Scope N_scope.
Fixpoint leqb {A} (e : A -> A -> bool) (a b : list A) : bool :=
  match a, b with [], [] => true | x :: a', y :: b' => e x y && leqb e a' b' | _, _ => false end.
Definition rel_eqb (a b : N * N * N) : bool :=
  (fst (fst a) =? fst (fst b)) && (snd (fst a) =? snd (fst b)) && (snd a =? snd b).
Definition lsp_eqb (a b : NInst.nlsp) : bool :=
  (l_range a =? l_range b) && (l_severity a =? l_severity b) && (l_code a =? l_code b) && (l_msg a =? l_msg b)
  && leqb rel_eqb (l_related a) (l_related b).
Definition note_eqb (a b : N * list NInst.nlsp) : bool := (fst a =? fst b) && leqb lsp_eqb (snd a) (snd b).
Definition out_eqb (a b : outcome (list (N * list NInst.nlsp))) : bool :=
  match a, b with Ok x, Ok y => leqb note_eqb x y | Crash, Crash => true | _, _ => false end.
Definition session := (nat * settings * NInst.nsev * list NInst.nevent * list (outcome (list (N * list NInst.nlsp))))%type.
Definition check (s : session) : bool :=
  match s with (n, st, sev0, evs, expected) => leqb out_eqb (NInst.n_run_trace n true st (mkServer [] sev0) evs) expected end.
"""


# --------------------------------------------------------------------------------------------------
# judging one session
# --------------------------------------------------------------------------------------------------
def brief(d, n=60):
    """(line:char of the range start, severity, code, message prefix) of a canonical diagnostic"""
    try:
        st = json.loads(d[0])["start"]
        at = "%d:%d" % (st["line"], st["character"])
    except Exception:
        at = "?"
    return (at, d[1], d[2], d[3][:n])


def short(view):
    return {u.rsplit("/", 1)[-1]: [brief(d, 40) for d in ds] for u, ds in view.items()}


def judge(sess, run, predicted, points):
    """Returns (problems, stats).  problems: list of dicts {kind, step, detail}."""
    problems = []
    stats = {"points": 0, "notifications": 0, "view_changes": 0, "noop_notifications": 0, "predicted": 0}
    if run["died"]:
        problems.append({"kind": "server-died", "step": len(run["points"]) - 1, "detail": run["died"]})
    if run["source_bad"] is not None:
        problems.append({"kind": "source-field", "step": None, "detail": json.dumps(run["source_bad"])[:300]})
    pred_by_point = {}
    if predicted is not None:
        for ev_index, k in enumerate(points):
            if k is not None and ev_index < len(predicted):
                pred_by_point[k] = predicted[ev_index]
    for k, rec in enumerate(run["points"]):
        stats["points"] += 1
        stats["notifications"] += len(rec["obs"])
        if rec["view"] != rec["prev"]:
            stats["view_changes"] += 1
        if run["outside_claim"]:
            continue
        # ORACLE: live client view == freshly started server
        if rec["view"] != rec["fresh"]:
            uris = sorted(set(rec["view"]) | set(rec["fresh"]))
            diff = {u.rsplit("/", 1)[-1]: {"client": [brief(d) for d in rec["view"].get(u, [])],
                                           "fresh": [brief(d) for d in rec["fresh"].get(u, [])]}
                    for u in uris if rec["view"].get(u, []) != rec["fresh"].get(u, [])}
            problems.append({"kind": "oracle", "step": rec["step"], "op": rec["op"],
                             "detail": "client view differs from a freshly started server: %s" % json.dumps(diff)[:900]})
        # MODEL: predicted notification stream
        obs = {}
        for u, ds in rec["obs"]:
            if u in obs:
                problems.append({"kind": "model", "step": rec["step"], "op": rec["op"],
                                 "detail": "two notifications for %s in one publish" % u})
            obs[u] = canon_list(ds)
        if predicted is None:
            continue
        pred = pred_by_point.get(k, {} if not rec["publishes"] else None)
        if pred is None:
            problems.append({"kind": "model", "step": rec["step"], "op": rec["op"],
                             "detail": "the model crashed or produced no event for this publish"})
            continue
        stats["predicted"] += len(pred)
        for u, content in pred.items():
            want = content
            if u not in obs:
                # a predicted notification whose content the client already holds is not required on the wire
                if content == rec["prev"].get(u, []):
                    continue
                problems.append({"kind": "model", "step": rec["step"], "op": rec["op"],
                                 "detail": "model predicts a notification for %s that was not sent: %s"
                                           % (u.rsplit("/", 1)[-1], [brief(d, 50) for d in content])})
            elif obs[u] != want:
                problems.append({"kind": "model", "step": rec["step"], "op": rec["op"],
                                 "detail": "notification for %s differs from the model: wire %s model %s"
                                           % (u.rsplit("/", 1)[-1], [brief(d, 50) for d in obs[u]],
                                              [brief(d, 50) for d in want])})
        for u, content in obs.items():
            if u in pred:
                continue
            if content == rec["prev"].get(u, []):
                stats["noop_notifications"] += 1
                continue
            problems.append({"kind": "model", "step": rec["step"], "op": rec["op"],
                             "detail": "notification for %s not predicted by the model changes the client view: %s"
                                       % (u.rsplit("/", 1)[-1], [brief(d, 50) for d in content])})
    return problems, stats


def session_key(sess):
    return hashlib.sha1(json.dumps({k: sess.get(k) for k in ("nolint", "rel", "libs", "ws", "uri_style", "files", "config", "steps")},
                                   sort_keys=True).encode()).hexdigest()


# --------------------------------------------------------------------------------------------------
def main(tier, replay=None):
    res = Result(PROP, tier, level="proof")
    top = rundir(PROP)
    # one scratch directory per process (several checks may run at the same time); stale ones are removed
    for old in os.listdir(top):
        q = os.path.join(top, old)
        if re.match(r"r\d+$", old) and time.time() - os.path.getmtime(q) > 7200:
            shutil.rmtree(q, ignore_errors=True)
    d = os.path.join(top, "r%d" % os.getpid())
    os.makedirs(d, exist_ok=True)
    try:
        return run_check(res, tier, replay, d)
    finally:
        shutil.rmtree(d, ignore_errors=True)


def run_check(res, tier, replay, d):
    phases = {}
    t_phase = time.time()
    proof_stage(res, PROP, thorough=(tier == "thorough"))
    phases["proof_stage"] = round(time.time() - t_phase, 1)
    t_phase = time.time()
    ok, log, binpath = vhdl_ls_build()
    if not ok:
        res.violation("vhdl_ls build failed against the current /repo tree", {"kind": "build", "log": log[-3000:]},
                      no_failing_input=True)
        return res.finish()
    ok, log, mbin = ocaml_build("c14_run")
    if not ok:
        res.violation("extracted model build failed", {"kind": "build", "log": log[-3000:]}, no_failing_input=True)
        return res.finish()
    codes = error_codes()
    std_libs_dir()
    phases["builds"] = round(time.time() - t_phase, 1)
    t_phase = time.time()

    sessions = []
    if replay:
        rp = json.load(open(replay))
        sessions.append(rp["session"])
    else:
        corpus = os.path.join(VERIF, "corpus", "C14.sessions.json")
        srng = random.Random(seed() * 104729 + 17)
        if os.path.exists(corpus):
            # every corpus session runs as written and in three differently spelled workspaces (directory and file
            # names that need percent-encoding, alternative URI spellings); the pools are walked round-robin
            for k, cs in enumerate(json.load(open(corpus))["sessions"]):
                sessions.append(cs)
                for j in range(3):
                    sp = {"ws": WS_POOL[1 + (3 * k + j + seed()) % (len(WS_POOL) - 1)],
                          "deco": DECO_POOL[2 + (k + 3 * j + seed()) % (len(DECO_POOL) - 2)],
                          "ddeco": DDECO_POOL[(k + j) % len(DDECO_POOL)],
                          "uri_style": URI_STYLES[1 + (k + 2 * j + seed()) % (len(URI_STYLES) - 1)]}
                    c2 = spell_session(cs, sp)
                    c2["libs"] = "std"
                    sessions.append(c2)
        n = 1200 if tier == "thorough" else 40
        hi = 25
        rng = random.Random(seed() * 7919 + (1 if tier == "thorough" else 0))
        for i in range(n):
            lo_hi = ((3, 8), (6, 14), (12, hi))[i % 3]
            gs = gen_session(random.Random(rng.getrandbits(64)), "gen-%d-%d" % (seed(), i), *lo_hi,
                             full_p=0.15 if tier == "thorough" else 0.04)
            if srng.random() < 0.75:
                gs = spell_session(gs, gen_spelling(srng))
            sessions.append(gs)

    def work(ix):
        sess = sessions[ix]
        try:
            return ix, run_session(sess, binpath, os.path.join(d, "ws%d" % ix), codes), None
        except Exception as ex:           # harness trouble is reported, never swallowed
            import traceback
            return ix, None, traceback.format_exc()[-1500:]

    runs = {}
    workers = int(os.environ.get("VERIF_C14_WORKERS", "10"))
    with concurrent.futures.ThreadPoolExecutor(max_workers=workers) as ex:
        for ix, run, err in ex.map(work, range(len(sessions))):
            if err:
                res.violation("check harness failed on session %s" % sessions[ix].get("name"),
                              {"kind": "harness", "session": sessions[ix], "log": err}, no_failing_input=True)
            else:
                runs[ix] = run

    phases["sessions"] = round(time.time() - t_phase, 1)
    t_phase = time.time()
    # model runs (one batch)
    lines, meta = [], []
    for ix in sorted(runs):
        if runs[ix]["outside_claim"] or not runs[ix]["points"]:
            continue
        line, tables, points = model_line(sessions[ix], runs[ix], codes, ix % 2)
        lines.append(line)
        meta.append((ix, tables, points))
    predicted = {}
    model_out = []
    if lines:
        inp = os.path.join(d, "model.in")
        with open(inp, "w") as f:
            f.write("\n".join(lines) + "\n")
        with open(inp) as fin:
            p = subprocess.run([mbin], stdin=fin, stdout=subprocess.PIPE, stderr=subprocess.PIPE)
        model_out = p.stdout.decode().split("\n")
        if p.returncode != 0 or len([x for x in model_out if x != ""]) < len(lines):
            res.violation("extracted model runner failed", {"kind": "build", "log": p.stderr.decode()[-2000:]},
                          no_failing_input=True)
        else:
            for (ix, tables, points), text in zip(meta, model_out):
                predicted[ix] = (decode_trace(text, tables, codes), points)

    # judge
    totals = {"points": 0, "notifications": 0, "view_changes": 0, "noop_notifications": 0, "predicted": 0}
    ops = {}
    lint_values = {}
    watched_types = {}
    started_without_config = sum(1 for ix in runs if sessions[ix]["config"].get("missing"))
    outside = []
    nviol = 0
    for ix in sorted(runs):
        sess, run = sessions[ix], runs[ix]
        pred, points = predicted.get(ix, (None, None))
        problems, stats = judge(sess, run, pred, points)
        for k in totals:
            totals[k] += stats[k]
        for st in sess["steps"]:
            ops[st["op"]] = ops.get(st["op"], 0) + 1
            if st["op"] in ("config", "watched"):
                for e, t in st.get("events", []):
                    key = ("config_file" if e == CFG else "other_file") + "_type%d" % t
                    watched_types[key] = watched_types.get(key, 0) + 1
            if st["op"] == "config":
                for v in (st["config"].get("lint") or {}).values():
                    lint_values[str(v)] = lint_values.get(str(v), 0) + 1
        res.count_case(session_key(sess), stats["view_changes"] >= 2)
        if ix % 9 == 0:
            res.add_sample({"name": sess.get("name"), "rel": sess["rel"], "nolint": sess["nolint"],
                            "config": sess["config"], "steps": [{k: v for k, v in s.items() if k not in ("text", "result", "changes")}
                                                                for s in sess["steps"]][:12],
                            "final_view": short(run["points"][-1]["view"]) if run["points"] else None})
        if run["outside_claim"]:
            last = run["points"][-1] if run["points"] else None
            outside.append({"session": sess.get("name"), "why": sess.get("why"), "server_alive": run["died"] is None,
                            "client": short(last["view"]) if last else None, "fresh": short(last["fresh"]) if last else None})
            if run["died"]:
                res.violation("server died in session %s" % sess.get("name"),
                              {"kind": "input", "session": sess, "detail": run["died"]})
            continue
        if problems:
            nviol += 1
            first = problems[0]
            steps_cut = first["step"] if isinstance(first.get("step"), int) else None
            cut = dict(sess)
            if steps_cut is not None:
                cut["steps"] = sess["steps"][:steps_cut + 1]
            kinds = sorted({p["kind"] for p in problems})
            what = ("session %s, step %s (%s): %s  [detected by: %s]"
                    % (sess.get("name"), first.get("step"), first.get("op"), first["detail"], ", ".join(kinds)))
            if nviol <= 8:
                res.violation(what, {"kind": "input", "session": cut, "problems": problems[:10],
                                     "replay_cmd": "./check C14 --replay <this file>"})
    if not runs:
        res.violation("no session could be run", {"kind": "harness"}, no_failing_input=True)

    # a sample of the sessions re-evaluated inside Coq (vm_compute) against the extracted runner
    items = []
    for (ix, _t, _p), line, text in zip(meta, lines, model_out):
        if len(line) < 6000 and len(items) < (12 if tier == "thorough" else 5):
            t = coq_of_line(line, text)
            if t:
                items.append(t)
    if items:
        v, log = coq_eval_bool(PROP, "sample", COQ_PREAMBLE + "Definition cases : list session := [\n" + ";\n".join(items) + "].\n",
                               "forallb check cases")
        res.coverage["in_coq_vm_compute_sessions"] = len(items)
        if v is not True:
            res.violation("extracted model and in-Coq evaluation (vm_compute) disagree on the sampled sessions",
                          {"kind": "correspondence", "correspondence": "extraction vs vm_compute (RH.Lsp.DiagCache.run_trace)",
                           "log": log[-2000:]}, no_failing_input=True)

    phases["model_judge_coq_sample"] = round(time.time() - t_phase, 1)
    res.coverage["phase_seconds"] = phases
    res.coverage["sessions"] = len(runs)
    res.coverage["quiescent_points_compared"] = totals["points"]
    res.coverage["fresh_servers_started"] = sum(rec["fresh_servers"] for ix in runs for rec in runs[ix]["points"])
    res.coverage["notifications_on_the_wire"] = totals["notifications"]
    res.coverage["notifications_predicted_by_model"] = totals["predicted"]
    res.coverage["noop_notifications_tolerated"] = totals["noop_notifications"]
    res.coverage["client_view_changes"] = totals["view_changes"]
    res.coverage["step_kinds"] = ops
    res.coverage["lint_values_written"] = lint_values
    res.coverage["watched_file_events"] = watched_types
    res.coverage["sessions_started_without_config"] = started_without_config
    spell = {"workspace_dirs": {}, "uri_styles": {}}
    for ix in runs:
        w, u = sessions[ix].get("ws", "ws"), sessions[ix].get("uri_style", "canonical")
        spell["workspace_dirs"][w] = spell["workspace_dirs"].get(w, 0) + 1
        spell["uri_styles"][u] = spell["uri_styles"].get(u, 0) + 1
    res.coverage["workspace_spellings"] = spell
    res.coverage["edits_of_documents_outside_any_library"] = sum(runs[ix]["outside_edits"] for ix in runs)
    res.coverage["documents_mapped_to_a_library_again_after_such_edits"] = sum(runs[ix]["reentries_after_outside_edit"] for ix in runs)
    res.coverage["outside_claim"] = outside
    res.coverage["traces_validated_against_impl"] = len(predicted)
    res.coverage["exhaustive"] = False
    res.coverage["explanation"] = (
        "theorem half: Coq theorems C14_* about the model of publish_diagnostics/reload_project (client view = rendering "
        "of the current diagnostics under the configured severities after every publish, for all histories; pre-fix code "
        "refuted); exploration half (decisive for the tie to the binary): generated LSP sessions against the real vhdl_ls "
        "binary, compared at every quiescent point with a freshly started server (oracle) and with the notification "
        "stream predicted by the extracted model from the raw current diagnostics")
    res.coverage["rule"] = (
        "corpus sessions first (F6 severity reload, deleted file with syntax error, disappearing/re-appearing diagnostic, "
        "flattened cross-file related information, hidden codes); then sessions of 3-25 steps generated from VERIF_SEED over a "
        "workspace of 5-6 small VHDL files (syntax errors, unresolved names, unused / sensitivity-list lints, duplicate "
        "declarations with cross-file related information, second library) with random [lint] tables "
        "(error|warning|info|hint|false|true), library mappings (glob / explicit / library removed / library renamed / "
        "is_third_party toggled / a file moved to a library of its own, also as reloads that add no file / broken or missing "
        "vhdl_ls.toml, 12% of the servers start without vhdl_ls.toml), every FileChangeType for the configuration file "
        "(Created after a start without it, Deleted, Changed, Created alone, Deleted+Created in one notification), "
        "mixed batches with events of all three types for other files; workspace directory / sub-directory / file names drawn from "
        "pools with spaces, non-ASCII letters, # % + & ( ) %41 %20, mixed case and nested directories, client URIs in the canonical "
        "encoding or as lower-case escapes / needless escapes / file://localhost / with . and x/.. components (fresh servers are "
        "always addressed canonically); every corpus session also runs in three such workspaces; open documents leave the project by a configuration "
        "rewrite or are opened outside it, are edited (ranged / full text) while in no library and are mapped to the same or "
        "another library again, 5% --no-lint, 40% clients without relatedInformation.  A session is non-trivial when the client "
        "view changed at two or more quiescent points; distinct by hash of the session")
    res.coverage["trusted_base"] = TRUSTED_BASE_COMMON + [
        "python LSP client vlib/lsp.py; `sync` barrier relies on the server handling messages in order",
        "the raw current diagnostics fed to the model come from a fresh server with the [lint] table removed (the "
        "project analysis itself is abstract in the model: argument `raw` of Publish)",
        "iteration order of FnvHashMap is abstracted by `reorder` (any permutation); notifications of one publish are compared as a set",
    ]
    res.coverage["partial"] = False
    res.assumptions = [
        "session state = directory state + the client's documents with their current text (plain splice of every didChange, "
        "whatever the project membership of the document).  The fresh server is given the open documents that are members of "
        "the current configuration, and the never-seen documents opened since the last reload (anonymous library); an open "
        "document that is in no library is not analysed by design (coordinator decision on D2/D3) and is therefore not "
        "re-opened in the fresh server, but its edits must show once it is mapped to a library again.  Files are renamed / "
        "deleted only while not open; existing files are never modified on disk behind the server's back",
        "diagnostics of one file are compared as multisets (their order follows hash-map iteration inside the analysis); "
        "files with [] equal files never mentioned",
    ]
    return res.finish()
