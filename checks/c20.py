"""C20 — Sensitivity-list lint is exact on combinational processes with known reads."""
import os
import json
from vlib.common import *

PROP = "C20"


def parse_diags(s):
    """`M0-0:1@6-6,2@12-12;S2-2;E:..` -> (missing list, sorted superfluous list, errors)."""
    missing, sup, errs = [], [], []
    for it in s.split(";"):
        if not it:
            continue
        if it.startswith("M"):
            at, _, sigs = it[1:].partition(":")
            missing.append((at, [x for x in sigs.split(",") if x]))
        elif it.startswith("S"):
            sup.append(tuple(int(x) for x in it[1:].split("-")))
        else:
            errs.append(it)
    return missing, sorted(sup), errs


def parse_oracle(s):
    missing, sup, errs = [], [], []
    dc_sup, dc_missing = [], set()
    for it in s.split(";"):
        if it.startswith("?S"):
            dc_sup.append(tuple(int(x) for x in it[2:].split("-")))
        elif it.startswith("?M"):
            dc_missing.add(it[2:])
        elif it:
            m, s2, _ = parse_diags(it)
            missing += m
            sup += s2
    return missing, sorted(sup), dc_sup, dc_missing


def oracle_ok(impl, oracle):
    """impl diagnostics satisfy the generator's expectation (don't-cares: record signals read through an element)."""
    im, isup, _ = impl
    om, osup, dc_sup, dc_missing = oracle
    if dc_missing:
        im = [(at, [x for x in sigs if x.split("@")[0] not in dc_missing]) for at, sigs in im]
        im = [(at, sigs) for at, sigs in im if sigs]
    if im != om:
        return False
    return set(osup) <= set(isup) and set(isup) <= set(osup) | set(dc_sup) and len(isup) == len(set(isup))


def canon(d):
    m, s, e = d
    return (m, s, e)


def gallina_diags(s):
    if s == "PANIC":
        return "None"
    items = []
    for it in s.split(";"):
        if not it:
            continue
        if it.startswith("M"):
            at, _, sigs = it[1:].partition(":")
            a, b = at.split("-")
            ss = []
            for x in sigs.split(","):
                if x:
                    i, sp = x.split("@")
                    sa, sb = sp.split("-")
                    ss.append("(%s, (%s, %s))" % (i, sa, sb))
            items.append("DMissing (%s, %s) [%s]" % (a, b, "; ".join(ss)))
        else:
            a, b = it[1:].split("-")
            items.append("DSuperfluous (%s, %s)" % (a, b))
    return "(Some [%s])" % "; ".join(items)


COQ_ROOT = ("(root_tab 1 44 [(7, KPort MIn); (13, KPort MIn); (17, KPort MIn); (37, KPort MOut); (38, KPort MOut); (39, KPort MOut); "
            "(40, KPort MInOut); (41, KPort MBuffer); (42, KPort MIn); (43, KPort MOut); (44, KPort MOut); (100, KOverloaded [400] true); (101, KOverloaded [401] true); (102, KOverloaded [402] true); "
            "(205, KOverloaded [403; 404] true); (206, KOverloaded [410; 411; 412; 413] false); (207, KOverloaded [414; 415] false); "
            "(208, KOverloaded [416; 417] false); (209, KOverloaded [418; 419] false); (228, KOverloaded [420; 421] false); "
            "(229, KOverloaded [422; 423] false); (400, KParam MIn true); (401, KParam MIn true); (402, KParam MIn false); "
            "(403, KParam MIn false); (404, KParam MIn false); (410, KParam MIn false); (411, KParam MIn false); "
            "(412, KParam MIn false); (413, KParam MIn false); (414, KParam MIn true); (415, KParam MIn false); "
            "(416, KParam MIn true); (417, KParam MOut true); (418, KParam MIn false); (419, KParam MOut false); "
            "(420, KParam MInOut true); (421, KParam MIn false); (422, KParam MIn true); (423, KParam MOut true)])")

COQ_PRE = """From Coq Require Import List NArith Bool.
Import ListNotations.
From RH Require Import Lint.Sens.
Open Scope N_scope.
Definition sp_eqb (a b : span) : bool := (fst a =? fst b) && (snd a =? snd b).
Fixpoint list_eqb {A} (f : A -> A -> bool) (x y : list A) : bool :=
  match x, y with [], [] => true | a :: r, b :: r' => f a b && list_eqb f r r' | _, _ => false end.
Definition diag_eqb (x y : diag) : bool :=
  match x, y with
  | DMissing a s, DMissing a' s' => sp_eqb a a' && list_eqb (fun u v : N * span => (fst u =? fst v) && sp_eqb (snd u) (snd v)) s s'
  | DSuperfluous a, DSuperfluous a' => sp_eqb a a'
  | _, _ => false
  end.
Definition odiags_eqb (x y : option (list diag)) : bool :=
  match x, y with Some a, Some b => list_eqb diag_eqb a b | None, None => true | _, _ => false end.
Definition names_of (p : process) : list expr := match p_sens p with Some (SensNames ns) => ns | _ => [] end.
"""


class Stats:
    def __init__(self):
        self.flags = {}
        self.f20 = 0
        self.f20_example = None
        self.old_differs = 0
        self.oracle_applied = 0
        self.theorem_instances = 0
        self.nviol = 0
        self.hist_viol = 0
        self.missing_sizes = {}
        self.sup_sizes = {}


def compare(res, st, tag, cases, impl, model, f20_entry):
    n = 0
    sampled = {}
    errfile = impl + ".err"
    if os.path.exists(errfile):
        txt = open(errfile).read().strip()
        if txt:
            res.violation("the analyser reported diagnostics outside the generated processes (the generated design is "
                          "not clean): " + txt[:300], {"kind": "generator", "stream": tag, "log": txt[:3000]},
                          no_failing_input=True)
    with open(cases) as fc, open(impl) as fi, open(model) as fm:
        for c, i, m in zip(fc, fi, fm):
            c = c.rstrip("\n")
            if not c.strip() or c.startswith("#"):
                continue
            n += 1
            cid, flags, text, oracle, root, ast = c.split("\t")
            i = i.rstrip("\n")
            m = m.rstrip("\n")
            st.flags[flags] = st.flags.get(flags, 0) + 1
            third = flags.endswith("t")      # process in a third-party library (history stage): never reported
            if third:
                flags = flags[:-1]
            cat = flags[-1]

            def viol(what, kind, nf=False, **extra):
                st.nviol += 1
                if st.nviol <= 8:
                    obj = {"kind": kind, "case": c, "id": cid, "vhdl": text.replace("~", "\n"), "impl": i, "model": m,
                           "oracle": oracle, "replay_cmd": "./check C20 --replay <this file>"}
                    obj.update(extra)
                    res.violation(what, obj, no_failing_input=nf)

            if m.startswith("BADCASE") or m.count("|") != 4:
                viol("the model runner could not read the case: " + m, "harness", nf=True)
                continue
            mm, mold, mf20, mspec, mfl = m.split("|")
            fam, resolved, wf, listed, mcat = mfl.split()
            di = parse_diags(i)
            dm = parse_diags(mm) if mm != "PANIC" else None
            if cid in sampled or n % 97 == 1:
                sampled[cid] = (mm, mspec, root)
            # --- anything unexpected from the analyser
            if di[2]:
                viol("unexpected diagnostic on a generated process (generated VHDL must be clean): " + "; ".join(di[2])[:300],
                     "generator", nf=True)
                continue
            # --- oracle: the property itself
            prop_ok = True
            nontrivial = False
            if third:
                if di[0] or di[1]:
                    viol("a process in a third-party library got a sensitivity-list diagnostic", "input")
                st.oracle_applied += 1
                res.count_case(cid + ast, False)
                continue
            if cat in "kan":
                if di[0] or di[1]:
                    prop_ok = False
                    viol("a process %s got a sensitivity-list diagnostic" %
                         {"k": "guarded by a clock edge", "a": "with `all`", "n": "without a sensitivity list"}[cat], "input")
                nontrivial = cat == "k"
                st.oracle_applied += 1
            elif "F" in flags and "H" not in flags:
                st.oracle_applied += 1
                o_main, _, o_alt = oracle.partition("#")
                po = parse_oracle(o_main)
                nontrivial = bool(po[0]) and bool(po[1])
                for at, sigs in po[0]:
                    st.missing_sizes[len(sigs)] = st.missing_sizes.get(len(sigs), 0) + 1
                st.sup_sizes[len(po[1])] = st.sup_sizes.get(len(po[1]), 0) + 1
                if not oracle_ok(di, po):
                    if "O" in flags and o_alt and oracle_ok(di, parse_oracle(o_alt)):
                        # explained exactly by "an out-mode actual is treated as read"
                        if f20_entry:
                            st.f20 += 1
                            if st.f20_example is None:
                                st.f20_example = cid
                        else:
                            prop_ok = False
                            viol("a signal passed as the actual of an out-mode procedure parameter is treated as read "
                                 "(finding F20, repaired by 8599f6f, has returned)", "input", expected=o_main)
                    else:
                        prop_ok = False
                        what = "the reported diagnostics differ from the process's known read set " \
                               "(missing signals in first-read order with their first-read positions / superfluous entries)"
                        if mf20 != mm and mf20 != "PANIC" and canon(di) == canon(parse_diags(mf20)):
                            what += "; the implementation behaves like the model of the code before 8599f6f (finding F20 has returned)"
                        elif mold != mm and canon(di) == canon(parse_diags(mold)):
                            what += "; the implementation behaves like the pre-fix model (findings F14/F15 have returned)"
                        viol(what, "input", expected=o_main)
            res.count_case(cid + ast, nontrivial)
            if n % 500 == 1 and len(text) < 1500:
                res.add_sample({"id": cid, "flags": flags, "vhdl": text.replace("~", "\n"), "impl": i, "oracle": oracle})
            # --- correspondence: implementation vs extracted model
            if dm is None or canon(di) != canon(dm):
                if prop_ok:
                    viol("correspondence broken: diagnostics of the implementation differ from the Coq model lint_model",
                         "correspondence", nf=True, correspondence="lint_sensitivity_list vs RH.Lint.Sens.lint_model")
                continue
            if mold != mm:
                st.old_differs += 1
            # --- the generator's family claims vs the model's decidable hypotheses
            bad = []
            if wf != "1":
                bad.append("wf_pos false")
            if cat == "c":
                if ("F" in flags) != (fam == "1"):
                    bad.append("in_family=%s but flags %s" % (fam, flags))
                if resolved != "1":
                    bad.append("calls_resolved false")
                if listed != "1" and "H" not in flags:      # H: e.g. a record element `r . f` as list entry
                    bad.append("listed_signals false")
                if "H" not in flags and mcat != "C":
                    bad.append("category %s for a combinational process" % mcat)
            if cat == "k" and mcat != "S":
                bad.append("category %s for a clocked process" % mcat)
            if bad:
                viol("generator and model disagree about the family: " + ", ".join(bad), "harness", nf=True)
            # --- instance of theorem C20_lint_exact on the extracted code
            if cat in "ck" and mcat == "C" and fam == "1" and resolved == "1" and wf == "1" and listed == "1":
                st.theorem_instances += 1
                if mm != mspec:
                    viol("extracted lint_model differs from extracted spec_diags although all hypotheses of "
                         "C20_lint_exact hold", "theorem", nf=True, theorem="C20_lint_exact", spec=mspec)
    res.coverage.setdefault("streams", {})[tag] = n
    return sampled


def coq_cross_check(res, coqfile, sampled):
    if not os.path.exists(coqfile):
        return
    items = []
    for line in open(coqfile):
        line = line.rstrip("\n")
        if not line:
            continue
        cid, term = line.split("\t")
        if cid not in sampled:
            continue
        mm, mspec, root = sampled[cid]
        spec = "None" if mspec == "-" else gallina_diags(mspec)
        items.append("(%s, %s, %s)" % (term, gallina_diags(mm), spec))
    if not items:
        return
    items = items[:250]
    root = COQ_ROOT
    pre = COQ_PRE + "Definition cases : list (process * option (list diag) * option (list diag)) := [\n" + ";\n".join(items) + "].\n"
    body = ("forallb (fun c => match c with (p, m, s) => odiags_eqb (lint_model (%s) p) m && "
            "match s with Some _ => odiags_eqb (Some (spec_diags (%s) p (names_of p))) s | None => true end end) cases" % (root, root))
    v, log = coq_eval_bool(PROP, "sample", pre, body)
    res.coverage["in_coq_vm_compute_cases"] = res.coverage.get("in_coq_vm_compute_cases", 0) + len(items)
    if v is not True:
        res.violation("extracted model and in-Coq evaluation (vm_compute) of lint_model / spec_diags disagree on the sampled cases",
                      {"kind": "correspondence", "correspondence": "extraction vs vm_compute (RH.Lint.Sens.lint_model)",
                       "log": log[-2000:]}, no_failing_input=True)


def main(tier, replay=None):
    res = Result(PROP, tier, level="proof")
    d = rundir(PROP)
    proof_stage(res, PROP, thorough=(tier == "thorough"))
    ok, log, hbin = harness_build("c20")
    if not ok:
        res.violation("harness build failed against the current /repo tree", {"kind": "build", "log": log[-3000:]},
                      no_failing_input=True)
        return res.finish()
    ok, log, mbin = ocaml_build("c20_run")
    if not ok:
        res.violation("extracted model build failed", {"kind": "build", "log": log[-3000:]}, no_failing_input=True)
        return res.finish()
    f20 = [e for e in known_findings(PROP)
           if e.get("kind") == "open" and e.get("match", {}).get("construct") == "out_actual"]
    f20_entry = f20[0] if f20 else None
    st = Stats()

    def stream(tag, mode, n):
        cases, impl, model = (os.path.join(d, "%s.%s" % (tag, x)) for x in ("cases", "impl", "model"))
        for f in (cases + ".coq", impl + ".err"):
            if os.path.exists(f):
                os.remove(f)
        rc, out = run([hbin, mode, str(seed()), str(n), os.path.join(d, "proj"), cases, impl], timeout=3000)
        if rc != 0:
            res.violation("harness c20 crashed in mode %s" % mode, {"kind": "harness", "log": out[-2000:]}, no_failing_input=True)
            return
        with open(cases) as fin, open(model, "w") as fout:
            p = subprocess.run([mbin], stdin=fin, stdout=fout)
        if p.returncode != 0:
            res.violation("extracted model runner failed", {"kind": "build"}, no_failing_input=True)
            return
        sampled = compare(res, st, tag, cases, impl, model, f20_entry)
        coq_cross_check(res, cases + ".coq", sampled)

    def hist_stream(tag, mode, n):
        """incremental stage: one Project through update_source+analyse steps vs a fresh Project vs the model"""
        base = os.path.join(d, tag)
        for x in ("hist", "verdicts", "pcases", "pimpl", "pmodel"):
            if os.path.exists(base + "." + x):
                os.remove(base + "." + x)
        rc, out = run([hbin, mode, str(seed()), str(n), os.path.join(d, "hproj"), base, "-"], timeout=3000)
        if rc != 0 or not os.path.exists(base + ".verdicts"):
            res.violation("harness c20 crashed in mode %s" % mode, {"kind": "harness", "log": out[-2000:]}, no_failing_input=True)
            return
        hists = {}
        for line in open(base + ".hist"):
            if line.strip():
                hists[json.loads(line)["id"]] = line.strip()
        steps = 0
        shrinking = 0
        for line in open(base + ".verdicts"):
            hid, step, verdict, detail = line.rstrip("\n").split("\t", 3)
            steps += 1
            if verdict != "SAME":
                st.nviol += 1
                if st.hist_viol < 4:
                    st.hist_viol += 1
                    res.violation("after step %s of history %s the incremental project's sensitivity-list diagnostics differ "
                                  "from a freshly built project on the same contents (linter cache): %s" % (step, hid, detail[:400]),
                                  {"kind": "history", "id": hid, "step": int(step), "detail": detail,
                                   "history": json.loads(hists.get(hid, "{}")),
                                   "replay_cmd": "./check C20 --replay <this file>"})
        res.coverage.setdefault("history_steps", {})[tag] = steps
        res.coverage.setdefault("histories", {})[tag] = len(hists)
        with open(base + ".pcases") as fin, open(base + ".pmodel", "w") as fout:
            p = subprocess.run([mbin], stdin=fin, stdout=fout)
        if p.returncode != 0:
            res.violation("extracted model runner failed", {"kind": "build"}, no_failing_input=True)
            return
        compare(res, st, tag, base + ".pcases", base + ".pimpl", base + ".pmodel", f20_entry)

    if replay:
        rp = json.load(open(replay))
        if "history" in rp:
            path = os.path.join(d, "replay.hist")
            open(path, "w").write(json.dumps(rp["history"]) + "\n")
            hist_stream("replayhist", "histfile:" + path, 0)
        else:
            path = os.path.join(d, "replay.in")
            open(path, "w").write(rp["case"] + "\n")
            stream("replay", "file:" + path, 0)
    else:

        corpus = os.path.join(VERIF, "corpus", "C20.cases")
        if os.path.exists(corpus):
            stream("corpus", "file:" + corpus, 0)
        if tier == "thorough":
            stream("random", "random:3", 120000)
            stream("deep", "random:4", 80000)
        else:
            stream("random", "random:3", 6000)
        # incremental stage: the linter's per-unit cache
        hcorpus = os.path.join(VERIF, "corpus", "C20.hist")
        if os.path.exists(hcorpus):
            hist_stream("histcorpus", "histfile:" + hcorpus, 0)
        hist_stream("hist", "hist", 3000 if tier == "thorough" else 150)
    if st.f20 and f20_entry:
        res.known_finding("%s reproduced on %d generated/corpus processes (e.g. %s): %s" %
                          (f20_entry.get("id", "F20"), st.f20, st.f20_example, f20_entry.get("open", "")))
    res.coverage["flag_distribution"] = st.flags
    res.coverage["oracle_applied"] = st.oracle_applied
    res.coverage["theorem_instances_on_extracted_code"] = st.theorem_instances
    res.coverage["cases_where_prefix_model_differs"] = st.old_differs
    res.coverage["missing_list_lengths"] = {str(k): v for k, v in sorted(st.missing_sizes.items())}
    res.coverage["superfluous_counts"] = {str(k): v for k, v in sorted(st.sup_sizes.items())}
    res.coverage["known_finding_F20_reproduced"] = st.f20
    res.coverage["exhaustive"] = False
    res.coverage["rule"] = (
        "corpus (F14, F15, F20a-d, two observations, multi-level list entries M1-M4, ports of every mode P1-P2, a passive process in an entity E1, seven clocked shapes K1-K7) first; then random processes from the family: 1-4 top-level statements, "
        "nesting <= 3 (thorough: also 4) of signal/variable assignments (simple, conditional, selected, force, release), "
        "if/elsif/else, case, for/while/plain loops with next/exit, procedure calls (positional and named; in, inout, out), "
        "assert/report, null; expressions over bit, integer, bit_vector, array, record and boolean signals, variables, "
        "literals (signal pool: internal signals, a package signal, ports of mode in, out (read back), inout, buffer, record "
        "and array ports; aliases of a signal and of an out port in the heuristic cases): indexed and sliced names, record elements, a selected package signal, function calls (positional/named), "
        "operators, aggregates, qualified and parenthesised expressions, 'image; sensitivity lists = random subset of the "
        "working set plus signals never read, entries as simple, indexed or sliced names; 7% clocked: the edge test "
        "(rising_edge/falling_edge call or 'event) in the first condition or in the second of exactly two, as the "
        "condition itself, as left or right operand of and/or/xor, under not, in parentheses, nested up to 3 levels; "
        "4% `all`, 4% without list; 10% with constructs outside "
        "the family (signal in a target index, slice bound or assert report), 5% at the boundary of the clock heuristic; "
        "sensitivity-list entries with up to three levels of indexing/slicing (arrays of arrays, element of a slice) and the "
        "selected package signal; out-mode signal actuals (po/pov) in ~2%. non-trivial = a combinational in-family process with >= 1 missing and >= 1 "
        "superfluous signal expected, or a clocked process; distinct by hash of id+AST. Placement: one process in twelve is a "
        "passive process (ports and package signal only, no signal assignment) in the statement part of an ENTITY; the others "
        "rotate through the architecture statement part, a block, if / for / case generate and block-in-generate nesting; "
        "1/4 labelled, 1/10 postponed. Project configuration: the library is named MyLib / lib / DSP_Core2 / WORKLIB per "
        "project (history stage: lib1 MyLib DSP_Core / Lib_2b lib2 WORKLIB / third party VENDOR Third_P lib3). Incremental stage (linter cache): "
        "corpus histories H1-H6 + 150 (thorough 3000) random histories of 2-4 update_source+analyse steps on ONE Project "
        "(3 libraries, one third party; entities c20_e/c20_f per library; 6 architecture files with 0-2 architectures of "
        "1-3 generated processes; steps: rename an architecture, empty a file, replace its architectures, new processes, "
        "drop one architecture, move one to another file); after every step the diagnostics are compared with a fresh "
        "Project on the same contents and, process by process, with the extracted lint_model")
    res.coverage["trusted_base"] = TRUSTED_BASE_COMMON + [
        "the process AST printed by the harness is the generator's own view of the VHDL text it prints (one emitter produces "
        "text, token table, AST spans and the oracle's read log); name resolution of the generated text is as the generator "
        "assumes (no shadowing; checked indirectly: any analyser diagnostic other than the two lint codes fails the run)",
        "entity kinds (signal / one-argument boolean function / other) are given to the model as the function `root`",
        "SrcPos order is modelled as the order of first-token indices (impl Ord for SrcPos compares range.start only)",
        "the order of HashMap iteration is not modelled: superfluous diagnostics are compared as sorted lists; the model "
        "iterates in insertion order",
    ]
    res.coverage["partial"] = False
    res.assumptions = [
        "in_family: positions the walker never visits mention no signal (index expressions of assignment targets, slice bounds, "
        "after expressions, report/severity expressions of assert, severity of report, arguments of attributes other than "
        "'image), no 'event attribute in a combinational process, no wait statement; outside it only the model "
        "correspondence is checked (DESIGN.md: observations, not raised)",
        "calls_resolved: the formal mode the specification attaches to every association element of a procedure call is the "
        "one the code resolves (is_out_mode_formal); evaluated by the extracted code on every generated process. Actuals of "
        "out-mode formals (positional, named, named with a type conversion in the formal part; plain, indexed, sliced, "
        "selected, element of element) are in the family since 8599f6f (F20 fixed)",
        "record signals read only through an element selection are don't-care for both diagnostics (the statement excludes them)",
        "clock heuristic boundary (a one-argument function returning boolean in the first/second condition of a top-level if "
        "counts as a clock edge; a clock edge in the second of three or more conditions does not) and duplicate list "
        "entries: the oracle is not applied, only the model correspondence",
        "wf_pos and listed_signals are evaluated by the extracted code on every generated process",
        "C20_cache_history_exact assumes wf_hist (a unit that exists and is not in analyzed_units existed at the previous "
        "call with the same lint result): a property of DesignRoot::analyze, tied by the incremental stage (fresh vs "
        "incremental after every step) and by C01; the cache model itself is not extracted (its conclusion is what the "
        "stage observes)",
    ]
    return res.finish()
