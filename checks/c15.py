"""C15 — Every request is answered exactly once; the server survives well-formed traffic.

Proof half: coq/Props/C15.v over the dispatch model coq/Lsp/Dispatch.v (stdio_server.rs), with every decoder
and handler abstract; `handlers_total` (no handler panics) is the hypothesis the black-box half explores.
Exploration half (this file): generated JSON-RPC sessions are sent to the real `vhdl_ls` binary; the response
skeleton `(id, ok | error code)*` + the way the session ends is predicted by the extracted model
(ocaml/c15_run.ml) from the method tables of the model and from a decodability oracle that is independent of the
server (a structural model of serde's derive semantics over the lsp-types 0.95 parameter types, below), and
compared with what the server really sent.  Liveness is checked after every message with a barrier request.
"""
import concurrent.futures
import copy
import json
import os
import random
import re
import shutil
import subprocess
import threading
import urllib.parse
from vlib.common import *
from vlib import lsp

PROP = "C15"
WS = "${WS}"          # placeholder for the workspace directory inside URIs of stored sessions

# ----------------------------------------------------------------------------------------------
# the workspace
# ----------------------------------------------------------------------------------------------
FILES = {
    "vhdl_ls.toml": '[libraries]\nlib.files = ["a.vhd", "b.vhd", "err.vhd"]\n',
    "a.vhd": (
        "library ieee;\nuse ieee.std_logic_1164.all;\n\npackage pkg is\n"
        "  constant width : natural := 8;\n  type state_t is (idle, run, done);\n"
        "  function incr(x : natural) return natural;\nend package;\n\n"
        "package body pkg is\n  function incr(x : natural) return natural is\n  begin\n"
        "    return x + 1;\n  end function;\nend package body;\n\n"
        "library ieee;\nuse ieee.std_logic_1164.all;\nuse work.pkg.all;\n\n"
        "entity ent is\n  generic (g : natural := width);\n"
        "  port (clk : in std_logic; d : in std_logic_vector(width - 1 downto 0); q : out std_logic);\n"
        "end entity;\n"),
    "b.vhd": (
        "library ieee;\nuse ieee.std_logic_1164.all;\nuse work.pkg.all;\n\n"
        "architecture rtl of ent is\n  signal st : state_t := idle;\n  signal cnt : natural := 0;\n"
        "  signal unused_sig : std_logic;\nbegin\n"
        "  main : process (clk) is\n    variable v : natural;\n  begin\n    if rising_edge(clk) then\n"
        "      v := incr(cnt);\n      cnt <= v;\n      case st is\n        when idle => st <= run;\n"
        "        when run => st <= done;\n        when done => st <= idle;\n      end case;\n"
        "    end if;\n  end process;\n  q <= d(0);\n"
        "  sub : entity work.ent generic map (g => 3) port map (clk => clk, d => d, q => open);\n"
        "end architecture;\n"),
    "err.vhd": (
        "entity broken is\n  port (a : in bit; b : out missing_type);\nend entity;\n\n"
        "architecture x of broken is\n  signal s : bit\nbegin\n  b <= a and;\n  s <= undefined_name;\n"
        "end architecture\n\narchitecture y of nothing is begin end;\n-- \u00e4\u00f6 \U0001F600 caf\u00e9\n"),
    "outside.vhd": "entity outside is\nend entity;\n",
    # extended identifiers with Latin-1 letters (first character of a word / after `_`); stored Latin-1 on disk
    "lat.vhd": (
        "library ieee;\nuse ieee.std_logic_1164.all;\n\nentity \\ent_\u00fcbung\\ is\n"
        "  port (\\clk_\u00fcbertakt\\ : in bit; \\\u00f6l\\ : out bit);\nend entity;\n\n"
        "architecture rtl of \\ent_\u00fcbung\\ is\n  signal \\sig_\u00e4\\ : bit;\nbegin\n"
        "  \\\u00f6l\\ <= \\clk_\u00fcbertakt\\;\n  \nend architecture;\n"),
    "\u00fcber_\u00e4.vhd": "package \\p_\u00e9\\ is\n  constant \\\u00c9clair_\u00f1\\ : bit := '1';\nend package;\n",
}
FILES["vhdl_ls.toml"] = ('[libraries]\nlib.files = ["a.vhd", "b.vhd", "err.vhd", "lat.vhd", "\u00fcber_\u00e4.vhd"]\n')
PROJECT_FILES = ["a.vhd", "b.vhd", "err.vhd", "lat.vhd", "\u00fcber_\u00e4.vhd"]


def make_workspace(d):
    ws = os.path.join(d, "ws")
    os.makedirs(ws, exist_ok=True)
    for name, text in FILES.items():
        p = os.path.join(ws, name)
        data = text.encode("latin-1", "replace") if name not in ("err.vhd", "vhdl_ls.toml") else text.encode("utf-8")
        if not os.path.exists(p) or open(p, "rb").read() != data:
            open(p, "wb").write(data)
    return ws


# ----------------------------------------------------------------------------------------------
# the method tables of the model (coq/Lsp/Dispatch.v vhdl_ls_requests / vhdl_ls_notifications;
# the runner uses the extracted lists, these copies select parameter generators and schemas)
# ----------------------------------------------------------------------------------------------
REQ_METHODS = [
    "textDocument/declaration", "textDocument/definition", "textDocument/typeDefinition",
    "textDocument/implementation", "textDocument/rename", "textDocument/prepareRename", "workspace/symbol",
    "textDocument/documentSymbol", "textDocument/documentHighlight", "textDocument/hover",
    "textDocument/references", "textDocument/completion", "completionItem/resolve",
    "textDocument/semanticTokens/full", "textDocument/semanticTokens/range"]
NOTE_METHODS = [
    "textDocument/didChange", "textDocument/didOpen", "workspace/didChangeWatchedFiles",
    "workspace/didCreateFiles", "workspace/didRenameFiles", "workspace/didDeleteFiles"]
UNKNOWN_REQ = ["textDocument/formatting", "foo/bar", "workspace/executeCommand", "textDocument/codeAction",
               "initialize", "textDocument/signatureHelp", "", "$/unknownRequest", "exit", "Shutdown",
               "textDocument/hover ", "textdocument/hover", "textDocument/didOpen", "workspaceSymbol/resolve",
               "textDocument/semanticTokens/full/delta", "textDocument/willSaveWaitUntil"]
UNKNOWN_NOTE = ["$/cancelRequest", "$/setTrace", "$/progress", "initialized", "textDocument/didClose",
                "textDocument/didSave", "workspace/didChangeConfiguration", "foo/bar", "textDocument/hover",
                "shutdown", "window/workDoneProgress/cancel", "", "Exit", "workspace/didChangeWorkspaceFolders"]

# ----------------------------------------------------------------------------------------------
# decodability oracle: serde derive semantics over the lsp-types 0.95.1 parameter types
# (validated against the real lsp_types decoder during development, see the report; independent of vhdl_ls)
# ----------------------------------------------------------------------------------------------
# URL strings the generator may use -> does `Url::parse` accept them (url 2.5)
URLS = {
    "file:///nonexistent/dir/zz.vhd": True, "untitled:Untitled-1": True, "http://x/y.vhd": True,
    "file://host/share/x.vhd": True, "file:rel/x.vhd": True, "rel/x.vhd": False, "x.vhd": False, "": False,
    "/abs/x.vhd": False, "file:///": True, "vscode-notebook-cell:/a/b.vhd#frag": True,
    "file:///a%20b/c%C3%A9.vhd": True, "FILE:///UPPER.VHD": True, "C:\\x\\y.vhd": True,
    "file:///a/../../b.vhd": True, "file:///x.vhd?query#frag": True, "file://localhost/tmp/x.vhd": True,
    "file:///tmp/\u00e9\u20ac.vhd": True, "http://": False, "12": False, "x": False, "ab/cd.vhd": False,
    "file:///%00x.vhd": True, "urn:isbn:0451450523": True, "file:///C:/x.vhd": True,
    "file:///vhdl_ls.toml": True, "untitled:vhdl_ls.toml": True,
}
WS_URLS = ["a.vhd", "b.vhd", "err.vhd", "outside.vhd", "vhdl_ls.toml", "new_file.vhd", ""]


def url_ok(s):
    if s.startswith("file://" + WS):
        return True
    if s not in URLS:
        raise AssertionError("URL string outside the table of the decodability oracle: %r" % s)
    return URLS[s]


def S(name, fields, flat=()):
    return ("struct", name, fields, flat)


def Opt(t):
    return ("opt", t)


def Vec(t):
    return ("vec", t)


NUM_OR_STR = ("untagged", ["i32", "str"])
WORK_DONE = S("WorkDoneProgressParams", [("workDoneToken", Opt(NUM_OR_STR))])
PARTIAL = S("PartialResultParams", [("partialResultToken", Opt(NUM_OR_STR))])
POSITION = S("Position", [("line", "u32"), ("character", "u32")])
RANGE = S("Range", [("start", POSITION), ("end", POSITION)])
TDI = S("TextDocumentIdentifier", [("uri", "url")])
TDPP = S("TextDocumentPositionParams", [("textDocument", TDI), ("position", POSITION)])
GOTO = S("GotoDefinitionParams", [], [TDPP, WORK_DONE, PARTIAL])
COMPLETION_ITEM = S("CompletionItem", [
    ("label", "str"),
    ("labelDetails", Opt(S("CompletionItemLabelDetails", [("detail", Opt("str")), ("description", Opt("str"))]))),
    ("kind", Opt("i32")), ("detail", Opt("str")), ("documentation", Opt("opaque")), ("deprecated", Opt("bool")),
    ("preselect", Opt("bool")), ("sortText", Opt("str")), ("filterText", Opt("str")), ("insertText", Opt("str")),
    ("insertTextFormat", Opt("i32")), ("insertTextMode", Opt("i32")), ("textEdit", Opt("opaque")),
    ("additionalTextEdits", Opt("opaque")), ("command", Opt("opaque")), ("commitCharacters", Opt(Vec("str"))),
    ("data", Opt("any")), ("tags", Opt(Vec("i32")))])
SCHEMA = {
    "textDocument/declaration": GOTO, "textDocument/definition": GOTO, "textDocument/typeDefinition": GOTO,
    "textDocument/implementation": GOTO,
    "textDocument/rename": S("RenameParams", [("newName", "str")], [TDPP, WORK_DONE]),
    "textDocument/prepareRename": TDPP,
    "workspace/symbol": S("WorkspaceSymbolParams", [("query", "str")], [PARTIAL, WORK_DONE]),
    "textDocument/documentSymbol": S("DocumentSymbolParams", [("textDocument", TDI)], [WORK_DONE, PARTIAL]),
    "textDocument/documentHighlight": S("DocumentHighlightParams", [], [TDPP, WORK_DONE, PARTIAL]),
    "textDocument/hover": S("HoverParams", [], [TDPP, WORK_DONE]),
    "textDocument/references": S("ReferenceParams",
                                 [("context", S("ReferenceContext", [("includeDeclaration", "bool")]))],
                                 [TDPP, WORK_DONE, PARTIAL]),
    "textDocument/completion": S("CompletionParams",
                                 [("context", Opt(S("CompletionContext", [("triggerKind", "i32"),
                                                                          ("triggerCharacter", Opt("str"))])))],
                                 [TDPP, WORK_DONE, PARTIAL]),
    "completionItem/resolve": COMPLETION_ITEM,
    "textDocument/semanticTokens/full": S("SemanticTokensParams", [("textDocument", TDI)], [WORK_DONE, PARTIAL]),
    "textDocument/semanticTokens/range": S("SemanticTokensRangeParams", [("textDocument", TDI), ("range", RANGE)],
                                           [WORK_DONE, PARTIAL]),
    "textDocument/didChange": S("DidChangeTextDocumentParams", [
        ("textDocument", S("VersionedTextDocumentIdentifier", [("uri", "url"), ("version", "i32")])),
        ("contentChanges", Vec(S("TextDocumentContentChangeEvent", [
            ("range", Opt(RANGE)), ("rangeLength", Opt("u32")), ("text", "str")])))]),
    "textDocument/didOpen": S("DidOpenTextDocumentParams", [
        ("textDocument", S("TextDocumentItem", [("uri", "url"), ("languageId", "str"), ("version", "i32"),
                                                ("text", "str")]))]),
    "workspace/didChangeWatchedFiles": S("DidChangeWatchedFilesParams", [
        ("changes", Vec(S("FileEvent", [("uri", "url"), ("type", "i32")])))]),
    "workspace/didCreateFiles": S("CreateFilesParams", [("files", Vec(S("FileCreate", [("uri", "str")])))]),
    "workspace/didRenameFiles": S("RenameFilesParams", [
        ("files", Vec(S("FileRename", [("oldUri", "str"), ("newUri", "str")])))]),
    "workspace/didDeleteFiles": S("DeleteFilesParams", [("files", Vec(S("FileDelete", [("uri", "str")])))]),
}


def is_int(v):
    return isinstance(v, int) and not isinstance(v, bool)


def decodes(t, v):
    """Would `serde_json::from_value::<T>(v)` succeed?  (derive(Deserialize) semantics, no deny_unknown_fields)"""
    if t == "str":
        return isinstance(v, str)
    if t == "bool":
        return isinstance(v, bool)
    if t == "u32":
        return is_int(v) and 0 <= v <= 0xFFFFFFFF
    if t == "i32":
        return is_int(v) and -0x80000000 <= v <= 0x7FFFFFFF
    if t == "url":
        return isinstance(v, str) and url_ok(v)
    if t == "any":
        return True
    if t == "opaque":
        # a type this oracle does not describe: the generator only ever leaves it absent or null
        if v is not None:
            raise AssertionError("opaque field given a value")
        return True
    k = t[0]
    if k == "opt":
        return v is None or decodes(t[1], v)
    if k == "vec":
        return isinstance(v, list) and all(decodes(t[1], x) for x in v)
    if k == "untagged":
        return any(decodes(x, v) for x in t[1])
    if k == "struct":
        _, _name, fields, flat = t
        if isinstance(v, list):
            # derive's visit_seq: exactly one element per field, in order; impossible with #[serde(flatten)]
            if flat:
                return False
            return len(v) == len(fields) and all(decodes(ft, x) for (_n, ft), x in zip(fields, v))
        if not isinstance(v, dict):
            return False
        return struct_from_map(t, v)
    raise AssertionError("bad type %r" % (t,))


def struct_from_map(t, v):
    _, _name, fields, flat = t
    for n, ft in fields:
        if n in v:
            if not decodes(ft, v[n]):
                return False
        elif not (isinstance(ft, tuple) and ft[0] == "opt"):
            return False
    if flat:
        names = {n for n, _ in fields}
        rest = {k: x for k, x in v.items() if k not in names}
        for ft in flat:
            # FlatMapDeserializer::deserialize_struct: the struct picks its own field names out of the rest
            if not struct_from_map(ft, rest):
                return False
            for n, _ in ft[2]:
                rest.pop(n, None)
            for sub in ft[3]:
                for n, _ in sub[2]:
                    rest.pop(n, None)
    return True


def params_decode(method, msg):
    """Decodability of the parameters of a raw message for a method of the model's tables."""
    return decodes(SCHEMA[method], msg.get("params"))


# ----------------------------------------------------------------------------------------------
# generators
# ----------------------------------------------------------------------------------------------
BIG = [2 ** 31 - 1, 4294967295, 2 ** 31, 100000, 65535, 65536]
TOO_BIG = [4294967296, -1, 2 ** 63, 2 ** 64, -2 ** 31 - 1, 1.5, 1.0, 1e300]
JUNK = [5, -1, 1.5, 4294967296, None, "x", "", True, False, [], [1, 2], {}, {"x": 1}, [[]], 0, "12",
        [{"uri": "file:///nonexistent/dir/zz.vhd"}, {"line": 1, "character": 2}], [3, 4]]
GOOD_POS = {   # (line, character) on identifiers of the workspace files
    "a.vhd": [(4, 12), (5, 8), (6, 12), (10, 12), (12, 11), (18, 10), (20, 8), (21, 12), (22, 9), (22, 55), (3, 9)],
    "b.vhd": [(4, 21), (5, 10), (5, 15), (6, 10), (9, 4), (12, 10), (13, 12), (14, 7), (15, 12), (16, 25),
              (22, 2), (23, 22), (23, 40), (2, 10)],
    "err.vhd": [(0, 8), (1, 30), (4, 18), (7, 2), (8, 10), (11, 20), (12, 5), (12, 12)],
    "lat.vhd": [(10, 2), (8, 2), (9, 5), (10, 10), (10, 11), (3, 10), (4, 12), (4, 40), (8, 12), (0, 8), (7, 22)],
    "\u00fcber_\u00e4.vhd": [(0, 10), (1, 12), (1, 2), (2, 0)],
    "outside.vhd": [(0, 8), (3, 13), (3, 18), (4, 9), (6, 2)],
    "new_file.vhd": [(0, 8), (3, 13), (3, 18), (4, 9), (6, 2)],
    "zz.vhd": [(0, 8), (3, 13), (3, 18), (4, 9), (6, 2)],
    "x.vhd": [(0, 8), (3, 13), (3, 18), (4, 9), (6, 2)],
}
# text given to didOpen for documents that are not part of the project (positions above)
NONPROJ_TEXT = ("entity outside is\nend entity;\n\narchitecture a of outside is\n  signal s : bit;\nbegin\n"
                "  s <= '1';\nend architecture;\n")
NONPROJ_URIS = ["file://%s/outside.vhd" % WS, "file://%s/new_file.vhd" % WS, "file:///nonexistent/dir/zz.vhd",
                "file:rel/x.vhd"]
DOC_REQS = ["textDocument/declaration", "textDocument/definition", "textDocument/typeDefinition",
            "textDocument/implementation", "textDocument/rename", "textDocument/prepareRename",
            "textDocument/documentSymbol", "textDocument/documentHighlight", "textDocument/hover",
            "textDocument/references", "textDocument/completion", "textDocument/semanticTokens/full",
            "textDocument/semanticTokens/range"]
RELOADS = ["workspace/didCreateFiles", "workspace/didRenameFiles", "workspace/didDeleteFiles",
           "workspace/didChangeWatchedFiles"]


def toml_variants(dropped):
    keep = [f for f in PROJECT_FILES if f != dropped]
    q = lambda fs: "[" + ", ".join('"%s"' % f for f in fs) + "]"
    return {
        "drop-one": "[libraries]\nlib.files = %s\n" % q(keep),
        "no-files": "[libraries]\nlib.files = []\n",
        "no-libraries": "[libraries]\n",
        "only-outside": '[libraries]\nother.files = ["outside.vhd"]\n',
        "two-libraries": "[libraries]\nlib.files = %s\nlib2.files = %s\n" % (q(keep), q(keep[:1] + ["outside.vhd"])),
        "invalid-toml": "[libraries\nlib.files = 5\n",
        "missing-file-listed": '[libraries]\nlib.files = ["a.vhd", "does_not_exist.vhd"]\n',
        "unchanged": FILES["vhdl_ls.toml"],
        "deleted": None,
    }
TEXTS = ["", "x", "\n", "entity e2 is\nend entity;\n", "signal \u00e9 : bit;\r\n", "\U0001F600", "a\rb", ";\n;",
         "architecture z of ent is begin end;", "package p2 is end package;\n", "-- c\n", "end", "\t(", "'"]


# ---- pool of string values: lengths in BYTES around every power of two, characters of 1-4 UTF-8 bytes placed so
# that a multi-byte character straddles the byte offset, combining marks, RTL, NUL and control characters
STR_BYTE_LENGTHS = [0, 1, 2, 3, 4, 7, 8, 9, 15, 16, 17, 31, 32, 33, 63, 64, 65, 66, 127, 128, 129, 255, 256, 257,
                    511, 512, 513, 1000, 1023, 1024, 1025, 4095, 4096, 4097]
STR_CLASSES = {
    "ascii": ["a", "z", "_", "0"],
    "2byte": ["\u00e9", "\u00e4", "\u00ff", "\u0416"],
    "3byte": ["\u20ac", "\u4e2d", "\u0939", "\ufffd"],
    "4byte": ["\U0001F600", "\U00010348", "\U0001F1E9"],
    "combining": ["e\u0301", "a\u0308\u0323", "\u0301"],
    "rtl": ["\u05d0", "\u0627", "\u202e", "\u200f"],
    "control": ["\x00", "\x01", "\x1b", "\x7f", "\t", "\r", "\n", "\u0085", "\u2028", "\ufeff"],
}
STR_SPECIAL = ["", " ", "\x00", "a\x00b", "\u202eabc", "\ud7ff\ue000", "\U0010FFFF", "'", '"', "\\", "%C3%A9", "%", "%ZZ",
               "a" + "\u00e9" * 40, "\u00e9" * 40, "\u20ac" * 30, "\U0001F600" * 20, "a" * 64, "a" * 65]


def pool_string(r, max_bytes=5000):
    """A string whose UTF-8 length is (about) one of STR_BYTE_LENGTHS, built from one character class (or a mix),
    after an ASCII prefix of 0-3 bytes so that a multi-byte character straddles the interesting offsets."""
    c = r.random()
    if c < 0.15:
        return r.choice(STR_SPECIAL)
    n = r.choice([x for x in STR_BYTE_LENGTHS if x <= max_bytes] + ([70000] if max_bytes >= 70000 and r.random() < 0.25 else []))
    cls = r.choice(["2byte", "3byte", "4byte"] * 3 + ["ascii", "combining", "rtl", "control", "mix", "mix"])
    prefix = "a" * r.choice([0, 0, 1, 2, 3])
    out = [prefix]
    size = len(prefix)
    unit = None if cls == "mix" else r.choice(STR_CLASSES[cls])
    while size < n:
        ch = unit if unit is not None else r.choice(STR_CLASSES[r.choice(sorted(STR_CLASSES))])
        out.append(ch)
        size += len(ch.encode("utf-8"))
    return "".join(out)


def pool_document(r):
    """Document contents with long multi-byte lines; requests then use positions around the same offsets."""
    lines = []
    for _ in range(r.choice([1, 2, 4])):
        k = r.random()
        body = pool_string(r, 1100).replace("\n", " ").replace("\r", " ")
        if k < 0.3:
            lines.append("-- " + body)
        elif k < 0.5:
            lines.append('constant c : string := "%s";' % body.replace('"', '""'))
        elif k < 0.7:
            lines.append("signal " + body + " : bit;")
        elif k < 0.85:
            lines.append("/* " + body)
        else:
            lines.append(body)
    head = r.choice(["", "entity outside is\nend entity;\n", "package p is\n"])
    return head + r.choice(["\n", "\r\n", "\r"]).join(lines) + r.choice(["", "\n", "\nend package;\n"])


EDGE_CHARS = [0, 1, 2, 3, 4, 5, 15, 16, 17, 20, 21, 22, 30, 31, 32, 33, 42, 43, 63, 64, 65, 66, 127, 128, 129, 255, 256, 257,
              340, 341, 342, 511, 512, 513, 1000, 1023, 1024, 1025]


# ---- the configuration space of the server (vhdl_lang/src/config.rs: every key, legal and illegal values)
ERROR_CODES = ["syntax_error", "circular_dependency", "type_mismatch", "unused", "unresolved", "duplicate",
               "unnecessary_work_library", "missing_in_sensitivity_list", "superfluous_in_sensitivity_list",
               "unassociated", "internal", "related", "void_return", "mismatched_kinds", "invalid_literal"]
# library names: ASCII, Latin-1 letters first / after `_`, odd but Latin-1.  Not generated: names outside Latin-1
# (separate finding probe) and `std` (redefining std.standard is C03/F28)
LIB_NAMES = ["lib", "lib", "lib_\u00f6l", "\u00dcnicode", "l", "defaultlib", "LIB2", "my lib", "1x", "", "ieee",
             "a\u0000b", "\u00e9_\u00e9_\u00e9", "x_\u00ff", "work", "WORK"]
FILE_PATTERNS = ["a.vhd", "b.vhd", "err.vhd", "lat.vhd", "\u00fcber_\u00e4.vhd", "outside.vhd", "*.vhd", "sub/*.vhd",
                 "**/*.vhd", "does_not_exist.vhd", "nope/*.vhd", "[", "***", "{a,b}.vhd", "?.vhd", ".", "..", "sub",
                 "vhdl_ls.toml", "$HOME/x.vhd", "${VERIF_UNDEFINED_VARIABLE}/a.vhd", "./a.vhd", "../ws/a.vhd",
                 "%s/a.vhd" % WS, "%s/lat.vhd" % WS, "", "\u20ac.vhd"]


def toml_str(x):
    return json.dumps(x, ensure_ascii=False)


def gen_toml(r, want_case=None):
    """A vhdl_ls.toml over all keys of Config::from_str, with legal and (sometimes) illegal values."""
    top = []
    c = r.random()
    if c < 0.45:
        top.append("standard = %s" % r.choice(['"1993"', '"2008"', '"2019"', '"93"', '"08"', '"19"', '"2002"', "2008", '""']))
    case = want_case or (r.choice(["lower", "upper", "pascal", "snake", "upper_snake", "upper_camel", "pascal", "upper_camel",
                                   "camel", "", 5]) if r.random() < 0.75 else None)
    if case is not None:
        top.append("preferred_case = %s" % (toml_str(case) if isinstance(case, str) else case))
    libs = []
    if r.random() < 0.93:
        libs.append("[libraries]")
        names = r.sample(LIB_NAMES, r.choice([1, 1, 2, 3, 4]))
        if r.random() < 0.8 and "lib" not in names:
            names.append("lib")
        seen = set()
        for n in names:
            if n in seen:
                continue
            seen.add(n)
            key = n if re.match(r"^[A-Za-z0-9_-]+$", n) else toml_str(n)
            files = r.sample(FILE_PATTERNS, r.choice([0, 1, 2, 3, 5]))
            if n == "lib" and r.random() < 0.8:
                files += ["lat.vhd", "a.vhd", "b.vhd"]
            k = r.random()
            if k < 0.9:
                libs.append("%s.files = [%s]" % (key, ", ".join(toml_str(f) for f in files)))
            elif k < 0.95:
                libs.append("%s.files = %s" % (key, r.choice(['"a.vhd"', "5", "[1, 2]", "true"])))
            else:
                libs.append("%s.is_third_party = true" % key)        # no `files`: error
                continue
            if r.random() < 0.25:
                libs.append("%s.exclude = %s" % (key, r.choice(['["err.vhd"]', '["*.vhd"]', '["nonexist*"]', '"err.vhd"', "[]"])))
            if r.random() < 0.25:
                libs.append("%s.is_third_party = %s" % (key, r.choice(["true", "false", '"yes"', "1"])))
    elif r.random() < 0.5:
        libs.append("libraries = 5")
    lint = []
    if r.random() < 0.4:
        lint.append("[lint]")
        for code in r.sample(ERROR_CODES + ["not_an_error_code", ""], r.choice([1, 2, 4])):
            key = code if code else '""'
            lint.append("%s = %s" % (key, r.choice(['"hint"', '"info"', '"warning"', '"error"', "true", "false", '"fatal"', "5",
                                                     '"error"', "false"])))
    text = "\n".join(top + libs + lint) + "\n"
    if r.random() < 0.04:
        text = r.choice(["", "[libraries", "\x00", "libraries = {", text + "[libraries]\n"])
    return text


class Gen:
    def __init__(self, seed_value):
        self.r = random.Random(seed_value)
        self.next_int_id = self.r.choice([1, 100, 2 ** 31 - 60, -50])
        self.used_ids = set()
        self.opened = set()

    # ---- atoms
    def uri(self, kind=None):
        r = self.r
        kind = kind or r.choice(["proj"] * 6 + ["ws", "nonfile", "odd", "unparsable", "unicode"] + ["opened"] * 3)
        if kind == "unicode":
            # file URIs (always parsable, validated) with raw / percent-encoded UTF-8 / percent-encoded non-UTF-8 names
            x = pool_string(r, 300)
            k = r.random()
            if k < 0.5:
                x = urllib.parse.quote(x, safe="")
            elif k < 0.7:
                x = urllib.parse.quote(x.encode("latin-1", "replace"), safe="/")
            return "file://%s/%s.vhd" % (WS, x)
        if kind == "opened":
            if self.opened:
                return r.choice(sorted(self.opened))
            kind = "proj"
        if kind == "proj":
            return "file://%s/%s" % (WS, r.choice(PROJECT_FILES))
        if kind == "ws":
            n = r.choice(WS_URLS)
            return "file://%s%s" % (WS, "/" + n if n else "")
        if kind == "nonfile":
            return r.choice(["untitled:Untitled-1", "http://x/y.vhd", "file://host/share/x.vhd",
                             "urn:isbn:0451450523", "C:\\x\\y.vhd"])
        if kind == "unparsable":
            return r.choice([u for u, ok in URLS.items() if not ok])
        return r.choice([u for u, ok in URLS.items() if ok])

    def position(self, uri):
        r = self.r
        name = uri.rsplit("/", 1)[-1]
        c = r.random()
        if c < 0.45 and name in GOOD_POS:
            l, ch = r.choice(GOOD_POS[name])
            return {"line": l, "character": ch}
        if c < 0.6:
            return {"line": r.randrange(0, 30), "character": r.randrange(0, 80)}
        if c < 0.72:
            return {"line": r.randrange(0, 6), "character": r.choice(EDGE_CHARS)}
        if c < 0.94:
            return {"line": r.choice(BIG + [0, 1, 12]), "character": r.choice(BIG + [0, 3])}
        return {"line": r.choice(TOO_BIG + BIG), "character": r.choice(TOO_BIG + BIG)}

    def range(self, uri):
        a, b = self.position(uri), self.position(uri)
        if self.r.random() < 0.75:
            try:
                if (a["line"], a["character"]) > (b["line"], b["character"]):
                    a, b = b, a
            except TypeError:
                pass
        return {"start": a, "end": b}

    def new_id(self):
        r = self.r
        for _ in range(100):
            c = r.random()
            if c < 0.6:
                self.next_int_id += r.choice([1, 1, 1, 7])
                if self.next_int_id > 2 ** 31 - 1:
                    self.next_int_id = -2 ** 31
                i = self.next_int_id
            elif c < 0.7:
                i = r.choice([0, -1, 2 ** 31 - 1, -2 ** 31, 42])
            else:
                i = r.choice(["a", "req-%d" % r.randrange(1000), "", "1", "0", "\u00e9\U0001F600", "null", "x y",
                              "%d" % r.randrange(10 ** 6), "id,with;separators|" + str(r.randrange(100)),
                              pool_string(r, 300) + str(r.randrange(1000))])
            key = json.dumps(i)
            if key not in self.used_ids:
                self.used_ids.add(key)
                return i
        raise AssertionError("id space exhausted")

    def tdpp(self, uri=None):
        uri = uri or self.uri()
        return {"textDocument": {"uri": uri}, "position": self.position(uri)}

    def extras(self, p):
        r = self.r
        if isinstance(p, dict) and r.random() < 0.25:
            p[r.choice(["workDoneToken", "partialResultToken"])] = r.choice(
                [1, "tok", None, -7, 2 ** 31 - 1, 2 ** 31, 1.5, True, {}, []])
        if isinstance(p, dict) and r.random() < 0.2:
            p[r.choice(["xVerifUnknown", "Position", "text_document", "URI"])] = r.choice(JUNK)
        return p

    # ---- valid parameters
    def req_params(self, m, uri=None):
        r = self.r
        if m in ("textDocument/declaration", "textDocument/definition", "textDocument/typeDefinition",
                 "textDocument/implementation", "textDocument/documentHighlight", "textDocument/hover",
                 "textDocument/prepareRename"):
            return self.tdpp(uri)
        if m == "textDocument/rename":
            p = self.tdpp(uri)
            p["newName"] = r.choice(["renamed", "", "x y", "\u00e9", "entity", "a" * 300] + [pool_string(r, 70000)] * 4)
            return p
        if m == "workspace/symbol":
            if r.random() < 0.6:
                return {"query": pool_string(r, 70000)}
            return {"query": r.choice(["", "ent", "pkg", "st", "clk", "zzzz", "\u00e4", "a" * 200, "+", "'a'", "*"])}
        if m in ("textDocument/documentSymbol", "textDocument/semanticTokens/full"):
            return {"textDocument": {"uri": uri or self.uri()}}
        if m == "textDocument/semanticTokens/range":
            u = uri or self.uri()
            return {"textDocument": {"uri": u}, "range": self.range(u)}
        if m == "textDocument/references":
            p = self.tdpp(uri)
            p["context"] = {"includeDeclaration": r.choice([True, False])}
            return p
        if m == "textDocument/completion":
            p = self.tdpp(uri)
            c = r.random()
            if c < 0.3:
                p["context"] = {"triggerKind": r.choice([1, 2, 3, 99, -1])}
            elif c < 0.5:
                p["context"] = {"triggerKind": 2, "triggerCharacter": r.choice([".", "'", "", "xx", pool_string(r, 300),
                                                                                pool_string(r, 5000)])}
            elif c < 0.6:
                p["context"] = None
            return p
        if m == "completionItem/resolve":
            p = {"label": r.choice(["ent", "", "pkg", "x", pool_string(r, 5000), pool_string(r, 300)])}
            if r.random() < 0.7:
                p["data"] = r.choice([0, 1, 5, 17, 1000, 2 ** 32, 2 ** 40, 2 ** 63, 2 ** 64 - 1, -1, "x", None, {}, [1],
                                      r.randrange(0, 5000), r.randrange(0, 2 ** 34), 1.5])
            if r.random() < 0.4:
                p["kind"] = r.choice([1, 9, 25, 0, -3])
            if r.random() < 0.3:
                p["detail"] = r.choice(["d", pool_string(r, 5000)])
            if r.random() < 0.2:
                p["sortText"] = r.choice(["s", pool_string(r, 300)])
            if r.random() < 0.2:
                p["insertText"] = pool_string(r, 5000)
            if r.random() < 0.15:
                p["filterText"] = pool_string(r, 300)
            if r.random() < 0.2:
                p["commitCharacters"] = [";", "("]
            if r.random() < 0.2:
                p["tags"] = [1]
            if r.random() < 0.2:
                p["labelDetails"] = {"detail": "x"}
            return p
        raise AssertionError(m)

    def note_params(self, m):
        r = self.r
        if m == "textDocument/didOpen":
            u = self.uri(r.choice(["proj", "proj", "ws", "ws", "nonfile", "odd", "unicode"]))
            text = r.choice(TEXTS + [FILES["a.vhd"], FILES["b.vhd"], FILES["err.vhd"], NONPROJ_TEXT, NONPROJ_TEXT]
                            + [pool_document(r)] * 8)
            if url_ok(u):
                self.opened.add(u)
            return {"textDocument": {"uri": u, "languageId": r.choice(["vhdl", "vhdl", "", pool_string(r, 300)]),
                                     "version": r.randrange(-3, 100), "text": text}}
        if m == "textDocument/didChange":
            u = self.uri(r.choice(["proj", "proj", "proj", "ws", "nonfile", "odd"]))
            changes = []
            for _ in range(r.choice([1, 1, 1, 2, 3, 0])):
                ch = {"text": r.choice(TEXTS + [pool_string(r, 1100)] * 4 + [pool_document(r)] * 2)}
                c = r.random()
                if c < 0.7:
                    ch["range"] = self.range(u)
                    if r.random() < 0.3:
                        ch["rangeLength"] = r.choice([0, 5, 4294967295])
                elif c < 0.8:
                    ch["range"] = None
                    ch["text"] = r.choice(TEXTS + [FILES["a.vhd"], FILES["b.vhd"]] + [pool_document(r)] * 4)
                changes.append(ch)
            return {"textDocument": {"uri": u, "version": r.randrange(0, 1000)}, "contentChanges": changes}
        if m == "workspace/didChangeWatchedFiles":
            evs = []
            for _ in range(r.choice([1, 1, 2, 0])):
                u = r.choice(["file://%s/vhdl_ls.toml" % WS, self.uri()])
                evs.append({"uri": u, "type": r.choice([1, 2, 3, 0, 77])})
            return {"changes": evs}
        if m in ("workspace/didCreateFiles", "workspace/didDeleteFiles"):
            return {"files": [{"uri": r.choice(["file://%s/new_file.vhd" % WS, "anything goes here", ""])}
                              for _ in range(r.choice([1, 1, 2, 0]))]}
        if m == "workspace/didRenameFiles":
            return {"files": [{"oldUri": "file://%s/a.vhd" % WS, "newUri": r.choice(["file://%s/c.vhd" % WS, "zz"])}
                              for _ in range(r.choice([1, 0, 2]))]}
        raise AssertionError(m)

    # ---- wrong shapes at every depth
    def paths(self, v, prefix=()):
        out = [prefix]
        if isinstance(v, dict):
            for k in v:
                out += self.paths(v[k], prefix + (k,))
        elif isinstance(v, list):
            for i, x in enumerate(v):
                out += self.paths(x, prefix + (i,))
        return out

    def mutate(self, p):
        """One random structural mutation somewhere in `p` (returns a new value)."""
        r = self.r
        p = copy.deepcopy(p)
        paths = self.paths(p)
        path = r.choice(paths)
        if not path:
            c = r.random()
            if c < 0.5 or not isinstance(p, dict):
                return r.choice(JUNK)
            if c < 0.75 and p:
                del p[r.choice(sorted(p))]
                return p
            p[r.choice(["extra", "uri", "line", "data"])] = r.choice(JUNK)
            return p
        parent = p
        for k in path[:-1]:
            parent = parent[k]
        last = path[-1]
        old = parent[last]
        c = r.random()
        if isinstance(parent, dict) and c < 0.25:
            del parent[last]
        elif isinstance(old, dict) and c < 0.4:
            old[r.choice(["extraField", "x"])] = r.choice(JUNK)
        elif isinstance(old, dict) and old and c < 0.5:
            # the array form of a struct: serde's derive accepts a sequence for structs without `flatten`
            parent[last] = list(old.values())
        elif isinstance(old, str) and last in ("uri",) and c < 0.7:
            parent[last] = self.uri(r.choice(["unparsable", "nonfile", "odd"]))
        elif is_int(old) and c < 0.7:
            parent[last] = r.choice(BIG + TOO_BIG)
        elif isinstance(old, list) and c < 0.6:
            parent[last] = old + [r.choice(JUNK)]
        else:
            j = r.choice(JUNK)
            if last == "uri" and isinstance(j, str):
                j = r.choice(["x", "", "12"])
            parent[last] = j
        return p

    # ---- one message
    def message(self):
        r = self.r
        c = r.random()
        if c < 0.52:
            m = r.choice(REQ_METHODS)
            msg = {"jsonrpc": "2.0", "id": self.new_id(), "method": m}
            k = r.random()
            if k < 0.62:
                msg["params"] = self.extras(self.req_params(m))
            elif k < 0.9:
                p = self.req_params(m)
                for _ in range(r.choice([1, 1, 2])):
                    p = self.mutate(p)
                msg["params"] = p
            elif k < 0.95:
                msg["params"] = None
            return msg
        if c < 0.62:
            m = r.choice(UNKNOWN_REQ)
            msg = {"jsonrpc": "2.0", "id": self.new_id(), "method": m}
            k = r.random()
            if k < 0.5:
                msg["params"] = r.choice(JUNK + [self.tdpp()])
            return msg
        if c < 0.86:
            m = r.choice(NOTE_METHODS[:2] * 3 + NOTE_METHODS)
            msg = {"jsonrpc": "2.0", "method": m}
            k = r.random()
            if k < 0.6:
                msg["params"] = self.note_params(m)
            elif k < 0.93:
                p = self.note_params(m)
                for _ in range(r.choice([1, 1, 2])):
                    p = self.mutate(p)
                msg["params"] = p
            elif k < 0.97:
                msg["params"] = None
            return msg
        if c < 0.95:
            m = r.choice(UNKNOWN_NOTE)
            msg = {"jsonrpc": "2.0", "method": m}
            if m == "$/cancelRequest":
                msg["params"] = {"id": r.choice([1, "a", 2 ** 31 - 1, self.next_int_id])}
            elif r.random() < 0.5:
                msg["params"] = r.choice(JUNK + [self.tdpp()])
            return msg
        # a response of the client to a (real or imagined) request of the server
        msg = {"jsonrpc": "2.0", "id": r.choice([0, 1, 2, "x", 999])}
        if r.random() < 0.6:
            msg["result"] = r.choice([None, {}, 5, [1]])
        else:
            msg["error"] = {"code": r.choice([-32601, -32603, 1]), "message": "no"}
        return msg

    def session(self, n):
        return [self.message() for _ in range(n)]

    # ---- histories: documents the server remembers, a project reload, then every request kind on them
    def did_open(self, uri, text):
        self.opened.add(uri)
        return {"jsonrpc": "2.0", "method": "textDocument/didOpen",
                "params": {"textDocument": {"uri": uri, "languageId": "vhdl", "version": 1, "text": text}}}

    def reload(self, kind=None):
        r = self.r
        kind = kind or r.choice(RELOADS)
        if kind == "workspace/didChangeWatchedFiles":
            p = {"changes": [{"uri": "file://%s/vhdl_ls.toml" % WS, "type": r.choice([1, 2, 3])}]}
        elif kind == "workspace/didRenameFiles":
            p = {"files": r.choice([[], [{"oldUri": "file://%s/a.vhd" % WS, "newUri": "file://%s/c.vhd" % WS}]])}
        else:
            p = {"files": r.choice([[], [{"uri": "file://%s/new_file.vhd" % WS}], [{"uri": "whatever"}]])}
        return {"jsonrpc": "2.0", "method": kind, "params": p}

    def sweep(self, uri, methods=None):
        """every document request kind (valid parameters, mostly on identifiers) on one document"""
        r = self.r
        ms = list(methods or DOC_REQS)
        r.shuffle(ms)
        out = []
        for m in ms:
            p = self.req_params(m, uri)
            if "position" in p and r.random() < 0.8:
                name = uri.rsplit("/", 1)[-1]
                l, ch = r.choice(GOOD_POS.get(name, [(0, 8)]))
                p["position"] = {"line": l, "character": ch}
            out.append({"jsonrpc": "2.0", "id": self.new_id(), "method": m, "params": p})
        return out

    def completion_sweep(self, uris):
        """completion at positions where names are listed, then completionItem/resolve with the `data` the server
        itself handed out (${LAST_COMPLETION_DATA:k} is replaced by the driver; decodability is unaffected)."""
        r = self.r
        out = []
        for u in uris:
            name = u.rsplit("/", 1)[-1]
            for _ in range(r.choice([1, 2, 3])):
                l, ch = r.choice(GOOD_POS.get(name, [(0, 8)]))
                p = {"textDocument": {"uri": u}, "position": {"line": l, "character": ch}}
                if r.random() < 0.3:
                    p["context"] = {"triggerKind": r.choice([1, 2, 3])}
                out.append({"jsonrpc": "2.0", "id": self.new_id(), "method": "textDocument/completion", "params": p})
                for _ in range(r.choice([0, 1, 2, 4])):
                    item = {"label": r.choice(["x", "\\clk_\u00fcbertakt\\", "lib_\u00f6l"]),
                            "data": "${LAST_COMPLETION_DATA:%d}" % r.randrange(0, 40)}
                    out.append({"jsonrpc": "2.0", "id": self.new_id(), "method": "completionItem/resolve", "params": item})
        return out

    def config_session(self):
        """The configuration space: a generated vhdl_ls.toml (or none), nested / HOME / VHDL_LS_CONFIG configurations,
        command line flags, initializationOptions, rootUri variants; the configuration changes, moves or disappears
        mid-session; completion / resolve and every other request kind in between."""
        r = self.r
        files = {}
        root_toml = (gen_toml(r, r.choice(["pascal", "upper_camel"]) if r.random() < 0.35 else None)
                     if r.random() < 0.8 else None)
        files["vhdl_ls.toml"] = root_toml
        if r.random() < 0.4:
            files["sub/vhdl_ls.toml"] = gen_toml(r)
        if r.random() < 0.5:
            files["sub/inner.vhd"] = "entity inner is\nend entity;\n"
        env = {}
        if r.random() < 0.25:
            files["home/.vhdl_ls.toml"] = gen_toml(r)
            env["HOME"] = "%s/home" % WS
        if r.random() < 0.3:
            k = r.random()
            if k < 0.6:
                files["envcfg.toml"] = gen_toml(r)
                env["VHDL_LS_CONFIG"] = "%s/envcfg.toml" % WS
            else:
                env["VHDL_LS_CONFIG"] = r.choice(["/nonexistent/x.toml", "", "%s" % WS, "%s/a.vhd" % WS])
        setup = {"$verif": "setup", "files": files, "env": env,
                 "args": r.choice([[], [], ["--no-lint"], ["--silent"], ["--no-lint", "--silent"]]),
                 "silent": r.random() < 0.7,
                 "root": r.choice(["ws"] * 8 + ["none", "nonfile", "sub", "missing-dir", "ws-slash"]),
                 "init_options": r.choice([None, None, {}, {"nonProjectFiles": "ignore"}, {"nonProjectFiles": "analyze"},
                                           {"nonProjectFiles": "bogus"}, {"nonProjectFiles": 5}, {"other": [1]}, 7, "x"])}
        msgs = [setup]
        lat = "file://%s/lat.vhd" % WS
        docs = [lat, "file://%s/%s" % (WS, r.choice(PROJECT_FILES)), r.choice(NONPROJ_URIS + ["file://%s/sub/inner.vhd" % WS])]
        if r.random() < 0.5:
            msgs.append(self.did_open(lat, FILES["lat.vhd"]))
        if r.random() < 0.5:
            msgs.append(self.did_open(docs[2], r.choice([NONPROJ_TEXT, FILES["lat.vhd"], FILES["\u00fcber_\u00e4.vhd"]])))
        msgs += self.completion_sweep(docs[:2])
        if r.random() < 0.5:
            msgs += self.sweep(lat, r.sample(DOC_REQS, 6))
        tomls = ["file://%s/vhdl_ls.toml" % WS, "file://%s/sub/vhdl_ls.toml" % WS, "file://%s/sub/deeper/vhdl_ls.toml" % WS,
                 "file://%s/../vhdl_ls.toml" % WS, "file:///vhdl_ls.toml", "file://%s/home/.vhdl_ls.toml" % WS,
                 "file://%s/VHDL_LS.TOML" % WS, "file://%s/a.vhd" % WS, "untitled:vhdl_ls.toml"]
        for _round in range(r.choice([1, 2, 2, 3])):
            # the configuration on disk changes ...
            k = r.random()
            if k < 0.3:
                msgs.append({"$verif": "write", "file": "vhdl_ls.toml", "text": gen_toml(r)})
            elif k < 0.45:
                msgs.append({"$verif": "write", "file": "vhdl_ls.toml", "text": None})
            elif k < 0.6:
                msgs.append({"$verif": "move", "file": "vhdl_ls.toml", "to": "sub/vhdl_ls.toml"})
            elif k < 0.7:
                msgs.append({"$verif": "write", "file": "sub/vhdl_ls.toml", "text": gen_toml(r)})
            elif k < 0.78:
                msgs.append({"$verif": "move", "file": "sub/vhdl_ls.toml", "to": "vhdl_ls.toml"})
            # ... and the client reports it (or something else)
            for _ in range(r.choice([1, 1, 2])):
                if r.random() < 0.7:
                    evs = [{"uri": r.choice(tomls[:3] * 3 + tomls), "type": r.choice([1, 2, 3])} for _ in range(r.choice([1, 1, 2]))]
                    msgs.append({"jsonrpc": "2.0", "method": "workspace/didChangeWatchedFiles", "params": {"changes": evs}})
                else:
                    msgs.append(self.reload(r.choice(RELOADS[:3])))
            msgs += self.completion_sweep([lat] + r.sample(docs, 1))
            msgs.append({"jsonrpc": "2.0", "id": self.new_id(), "method": "workspace/symbol",
                         "params": {"query": r.choice(["", "ent", "\u00fc", "clk"])}})
            if r.random() < 0.5:
                msgs += self.sweep(r.choice(docs), r.sample(DOC_REQS, 5))
            msgs += [self.message() for _ in range(r.randrange(0, 4))]
        return msgs

    def history_session(self):
        r = self.r
        msgs = []
        proj = "file://%s/%s" % (WS, r.choice(PROJECT_FILES))
        dropped = r.choice(PROJECT_FILES)
        dropped_uri = "file://%s/%s" % (WS, dropped)
        nonproj = r.choice(NONPROJ_URIS)
        docs = [proj, nonproj, dropped_uri]
        # (1) documents the server remembers
        msgs.append(self.did_open(nonproj, NONPROJ_TEXT))
        if r.random() < 0.5:
            msgs.append(self.did_open(dropped_uri, FILES[dropped]))
        if r.random() < 0.3:
            other = r.choice(NONPROJ_URIS)
            msgs.append(self.did_open(other, r.choice([NONPROJ_TEXT, "", "package q is end package;\n"])))
            docs.append(other)
        msgs += [self.message() for _ in range(r.randrange(0, 4))]
        if r.random() < 0.4:
            msgs += self.sweep(r.choice(docs), r.sample(DOC_REQS, 4))
        for round_no in range(r.choice([1, 1, 2])):
            # (2) the configuration changes on disk (or not) and the project is reloaded
            variants = toml_variants(dropped)
            v = r.choice(sorted(variants)) if round_no == 0 else r.choice(["unchanged", "drop-one", "deleted"])
            if r.random() < 0.8:
                msgs.append({"$verif": "write", "file": "vhdl_ls.toml", "text": variants[v], "variant": v})
            msgs.append(self.reload())
            if r.random() < 0.25:
                msgs.append(self.reload())
            # (3) every request kind on project, non-project and dropped documents
            r.shuffle(docs)
            for u in docs:
                msgs += self.sweep(u)
            msgs.append({"jsonrpc": "2.0", "id": self.new_id(), "method": "workspace/symbol",
                         "params": {"query": r.choice(["", "outside", "ent", "s", pool_string(r, 5000)])}})
            msgs.append({"jsonrpc": "2.0", "id": self.new_id(), "method": "completionItem/resolve",
                         "params": {"label": "x", "data": r.randrange(0, 3000)}})
            # edits after the reload, then the document requests again
            if r.random() < 0.6:
                u = r.choice(docs)
                msgs.append({"jsonrpc": "2.0", "method": "textDocument/didChange",
                             "params": {"textDocument": {"uri": u, "version": 5},
                                        "contentChanges": [{"range": {"start": {"line": 0, "character": 0},
                                                                      "end": {"line": 0, "character": 0}},
                                                            "text": r.choice(TEXTS)}]}})
                msgs += self.sweep(u, r.sample(DOC_REQS, 5))
            msgs += [self.message() for _ in range(r.randrange(0, 5))]
        return msgs


# ----------------------------------------------------------------------------------------------
# model side
# ----------------------------------------------------------------------------------------------
def id_token(i):
    if is_int(i):
        return "i%d" % i
    return "s" + i.encode("utf-8").hex()


def classify(msg):
    """-> ('Q', id, method) | ('N', method) | ('R', id) as lsp_server::Message's untagged decoding does."""
    if "$verif" in msg:
        return ("A", msg["$verif"])      # an action of the driver (file system), not a message
    if "method" in msg and "id" in msg:
        return ("Q", msg["id"], msg["method"])
    if "method" in msg:
        return ("N", msg["method"])
    return ("R", msg["id"])


SAFE = re.compile(r"^[A-Za-z0-9/$_ .-]*$")


def model_line(msgs, lenient=True):
    items = []
    for msg in msgs:
        c = classify(msg)
        if c[0] == "Q":
            m = c[2]
            assert SAFE.match(m), m
            d = params_decode(m, msg) if m in SCHEMA else True
            items.append("Q,%s,%s,%d" % (id_token(c[1]), m, 1 if d else 0))
        elif c[0] == "N":
            m = c[1]
            assert SAFE.match(m), m
            d = params_decode(m, msg) if m in SCHEMA else True
            items.append("N,%s,%d" % (m, 1 if d else 0))
        elif c[0] == "R":
            items.append("R,%s" % id_token(c[1]))
    return "%d|*|*|%s" % (1 if lenient else 0, ";".join(items))


def run_model(mbin, lines):
    p = subprocess.run([mbin], input=("\n".join(lines) + "\n").encode(), stdout=subprocess.PIPE)
    if p.returncode != 0:
        return None
    out = []
    for ln in p.stdout.decode().split("\n")[:len(lines)]:
        sk, stop = ln.rsplit("|", 1)
        pairs = []
        for it in sk.split(","):
            if it:
                i, v = it.rsplit("=", 1)
                pairs.append((i, v))
        out.append((pairs, int(stop)))
    return out


# ----------------------------------------------------------------------------------------------
# implementation side
# ----------------------------------------------------------------------------------------------
CAPS = {"textDocument": {"publishDiagnostics": {"relatedInformation": True},
                         "documentSymbol": {"hierarchicalDocumentSymbolSupport": True},
                         "completion": {"completionItem": {"snippetSupport": True}}},
        "workspace": {"didChangeWatchedFiles": {"dynamicRegistration": True}}}


_priv_lock = threading.Lock()
_priv_count = [0]


def subst(v, ws):
    if isinstance(v, str):
        return v.replace(WS, ws)
    if isinstance(v, list):
        return [subst(x, ws) for x in v]
    if isinstance(v, dict):
        return {k: subst(x, ws) for k, x in v.items()}
    return v


def skel_of(m):
    if "error" in m and m["error"] is not None:
        return str(m["error"].get("code"))
    return "ok" if "result" in m else "neither-result-nor-error"


def is_response(m):
    return isinstance(m, dict) and "id" in m and "method" not in m


def resp_pair(m, counter=None):
    i = m.get("id")
    if counter is not None and m.get("result") not in (None, [], {}):
        counter[0] += 1
    return (id_token(i) if (is_int(i) or isinstance(i, str)) else "unexpected-id:%r" % (i,), skel_of(m))


def drive(vbin, ws, msgs, mode, caps_variant=0):
    """Runs one session.  Returns dict: responses [(idtoken, ok|code)], died_at (index or None), per_step
    (stepwise: list of lists), exit_code, stderr."""
    caps = copy.deepcopy(CAPS)
    if caps_variant == 1:
        caps = {}
    private = None
    if any("$verif" in m for m in msgs):
        # the session changes files: it gets its own copy of the workspace
        with _priv_lock:
            _priv_count[0] += 1
            private = os.path.join(os.path.dirname(ws), "ws_priv", "%d_%d" % (os.getpid(), _priv_count[0]))
        shutil.rmtree(private, ignore_errors=True)
        ws = make_workspace(private)
    try:
        return _drive(vbin, ws, msgs, mode, caps)
    finally:
        if private:
            shutil.rmtree(private, ignore_errors=True)


def ws_path(ws, rel):
    path = os.path.normpath(os.path.join(ws, rel))
    if not (path + "/").startswith(os.path.dirname(ws) + "/"):
        raise AssertionError("driver action outside the private workspace: %r" % rel)
    return path


def write_file(ws, rel, text):
    path = ws_path(ws, rel)
    if text is None:
        if os.path.exists(path):
            os.remove(path)
        return
    os.makedirs(os.path.dirname(path), exist_ok=True)
    with open(path, "w", encoding="utf-8") as f:
        f.write(text.replace(WS, ws))


def act(ws, msg):
    """Driver action between messages: rewrite / delete / move a file of the (private) workspace."""
    if msg["$verif"] == "write":
        write_file(ws, msg["file"], msg.get("text"))
    elif msg["$verif"] == "move":
        src, dst = ws_path(ws, msg["file"]), ws_path(ws, msg["to"])
        if os.path.exists(src):
            os.makedirs(os.path.dirname(dst), exist_ok=True)
            os.replace(src, dst)
    elif msg["$verif"] != "setup":
        raise AssertionError("unknown driver action %r" % (msg,))


class LS2(lsp.LS):
    """vlib.lsp.LS with control over command line, environment and the initialize parameters."""

    def __init__(self, binpath, root, silent=True, extra_args=(), env=None):
        args = [binpath] + (["--silent"] if silent else []) + ["-l", lsp.VHDL_LIBRARIES]
        for a in extra_args:
            if a not in args:
                args.append(a)
        self.root = root
        self.p = subprocess.Popen(args, stdin=subprocess.PIPE, stdout=subprocess.PIPE, stderr=subprocess.PIPE,
                                  cwd=root, env=env)
        self.q = lsp.queue.Queue()
        self.id = 0
        self.log = []
        self.stderr_buf = []
        threading.Thread(target=self._rd, daemon=True).start()
        threading.Thread(target=self._rd_err, daemon=True).start()

    def initialize2(self, caps, root_kind, init_options, timeout=180.0):
        params = {"processId": None, "capabilities": caps}
        root_uri = {"ws": "file://" + self.root, "ws-slash": "file://" + self.root + "/", "none": None,
                    "nonfile": "untitled:workspace", "sub": "file://" + self.root + "/sub",
                    "missing-dir": "file://" + self.root + "/does/not/exist"}[root_kind]
        if root_kind != "none" or hash(self.root) % 2:
            params["rootUri"] = root_uri
        if init_options is not None:
            params["initializationOptions"] = init_options
        resp, others = self.call("initialize", params, timeout)
        self.notify("initialized", {})
        others += self.sync(timeout)
        return resp, others


LAST_DATA = re.compile(r"^\$\{LAST_COMPLETION_DATA:(\d+)\}$")


def fill_completion_data(v, datas):
    if isinstance(v, str):
        m = LAST_DATA.match(v)
        if m:
            k = int(m.group(1))
            return datas[k % len(datas)] if datas else k
        return v
    if isinstance(v, list):
        return [fill_completion_data(x, datas) for x in v]
    if isinstance(v, dict):
        return {k: fill_completion_data(x, datas) for k, x in v.items()}
    return v


def remember_completion(got, datas):
    for m in got:
        r = m.get("result") if isinstance(m, dict) else None
        items = r.get("items") if isinstance(r, dict) else (r if isinstance(r, list) else None)
        if isinstance(items, list) and items and all(isinstance(i, dict) and "label" in i for i in items[:3]):
            ds = [i.get("data") for i in items if isinstance(i, dict) and "data" in i]
            if ds:
                datas[:] = ds


def _drive(vbin, ws, msgs, mode, caps):
    setup = msgs[0] if msgs and msgs[0].get("$verif") == "setup" else None
    datas = []
    if setup:
        for rel, text in setup.get("files", {}).items():
            write_file(ws, rel, text)
        os.makedirs(os.path.join(ws, "sub"), exist_ok=True)
        env = dict(os.environ)
        env.update({k: v.replace(WS, ws) for k, v in setup.get("env", {}).items()})
        ls = LS2(vbin, ws, silent=setup.get("silent", True), extra_args=setup.get("args", ()), env=env)
    else:
        ls = lsp.LS(vbin, ws)
    res = {"responses": [], "died_at": None, "per_step": [], "exit": None, "why": "", "init_failed": False}
    nsync = [0]
    nonnull = [0]

    def barrier():
        nsync[0] += 1
        rid = "verif-sync-%d" % nsync[0]
        ls.request("$verif/sync", {}, rid=rid)
        _resp, others = ls.wait_response(rid, 180.0)
        return [m for m in others if is_response(m)]

    try:
        if setup:
            ls.initialize2(caps, setup.get("root", "ws"), setup.get("init_options"))
        else:
            ls.initialize(caps=caps)
    except lsp.ServerDied as ex:
        res["init_failed"] = True
        res["why"] = str(ex)
        ls.kill()
        return res
    real = subst(msgs, ws)
    try:
        if mode == "step":
            for k, msg in enumerate(real):
                if "$verif" in msg:
                    act(ws, msg)
                    res["per_step"].append([])
                    continue
                try:
                    ls.send_raw(fill_completion_data(msg, datas))
                    got = barrier()
                    remember_completion(got, datas)
                except lsp.ServerDied as ex:
                    res["died_at"] = k
                    res["why"] = str(ex)
                    break
                step = [resp_pair(m, nonnull) for m in got]
                res["per_step"].append(step)
                res["responses"] += step
        else:
            try:
                got = []
                for msg in real:
                    if "$verif" in msg:
                        got += barrier()        # everything before the file change must have been processed
                        act(ws, msg)
                    else:
                        ls.send_raw(fill_completion_data(msg, datas))
                got += barrier()
                res["responses"] = [resp_pair(m, nonnull) for m in got]
            except lsp.ServerDied as ex:
                res["died_at"] = -1
                res["why"] = str(ex)
        if res["died_at"] is None:
            # shutdown / exit
            try:
                ls.request("shutdown", None, rid="verif-shutdown")
                resp, others = ls.wait_response("verif-shutdown", 60.0)
                res["shutdown"] = skel_of(resp)
                res["late"] = [resp_pair(m) for m in others if is_response(m)]
                ls.notify("exit", None)
                try:
                    ls.p.stdin.close()
                except Exception:
                    pass
                try:
                    res["exit"] = ls.p.wait(timeout=60)
                except subprocess.TimeoutExpired:
                    res["exit"] = "no exit within 60 s after shutdown/exit"
            except lsp.ServerDied as ex:
                res["died_at"] = len(real)
                res["why"] = "during shutdown: " + str(ex)
    finally:
        ls.kill()
        try:
            ls.p.wait(timeout=10)
        except Exception:
            pass
    res["nonnull_ok"] = nonnull[0]
    if res["died_at"] is not None:
        res["exit"] = ls.p.poll()
        res["stderr"] = "".join(ls.stderr_buf[-12:])[-1500:]
    return res


def expected_steps(msgs, pairs):
    """Distribute the model's skeleton over the messages (one entry per request, in order)."""
    it = iter(pairs)
    steps = []
    for msg in msgs:
        steps.append([next(it)] if classify(msg)[0] == "Q" else [])
    return steps


def judge(res_obj, tag, sess, model, out):
    """Compare one driven session with the model's prediction; report through res_obj.  Returns True if clean."""
    msgs, mode = sess["messages"], out.get("mode_used", sess["mode"])
    pairs, stop = model                     # prediction for msgs + shutdown + exit
    pairs_body = pairs[:-1]
    replay = {"kind": "input", "session": tag, "mode": mode, "caps": sess.get("caps", 0), "messages": msgs,
              "replay_cmd": "./check C15 --replay <this file>"}
    if out["init_failed"]:
        res_obj.violation("the server did not get through initialize on the fixed workspace (%s)" % out["why"][:300],
                          dict(replay, kind="harness"), no_failing_input=True)
        return False
    if stop != 1:
        res_obj.violation("model predicts stop=%d for a generated session (generator/model disagreement)" % stop,
                          dict(replay, kind="harness"), no_failing_input=True)
        return False
    if out["died_at"] is not None:
        k = out["died_at"]
        prefix = msgs if k < 0 else msgs[:k + 1]
        last = json.dumps(prefix[-1])[:300] if prefix else "(shutdown)"
        if out.get("minimal"):
            replay["minimised_from"] = len(prefix)
            prefix = out["minimal"]
        res_obj.violation(
            "server process died / stopped answering (exit=%s) after message #%s %s; stderr: %s"
            % (out.get("exit"), k, last, (out.get("stderr") or out["why"]).strip().replace("\n", " | ")[-400:]),
            dict(replay, messages=prefix, mode="step", died_at=k, failing_message=prefix[-1] if prefix else None))
        return False
    # classification of a difference between prediction and observation
    def describe(exp, got, where):
        return "%s: expected responses %s, server sent %s" % (where, exp, got)
    bad = None
    corr = None
    if mode == "step":
        exp_steps = expected_steps(msgs, pairs_body)
        for k, (e, g) in enumerate(zip(exp_steps, out["per_step"])):
            if e != g:
                cls = classify(msgs[k])
                what = describe(e, g, "message #%d %s" % (k, json.dumps(msgs[k])[:300]))
                # Ok where the model says InvalidParams (or the reverse) with the right id and count:
                # decodability oracle / method table disagreement, not a violation of the property as worded
                # unless the method is unknown to the model.
                if (len(e) == 1 and len(g) == 1 and e[0][0] == g[0][0] and cls[0] == "Q" and cls[2] in SCHEMA
                        and {e[0][1], g[0][1]} <= {"ok", "-32602", "-32601"} and "-32601" in (e[0][1], g[0][1])):
                    corr = ("method table of the model and of the server differ for %s: %s" % (cls[2], what), k)
                else:
                    bad = (what, k)
                break
    if bad is None and corr is None and out["responses"] != pairs_body:
        bad = (describe(pairs_body, out["responses"], "whole session (%s)" % mode), len(msgs) - 1)
    if bad is None and corr is None:
        if out.get("late"):
            bad = ("responses arrived after the barrier: %s" % out["late"], len(msgs) - 1)
        elif out.get("shutdown") != "ok":
            bad = ("shutdown answered %s" % out.get("shutdown"), len(msgs) - 1)
        elif out["exit"] != 0:
            bad = ("exit status after shutdown/exit is %r, expected 0" % (out["exit"],), len(msgs) - 1)
    if bad:
        what, k = bad
        res_obj.violation("request/response discipline violated: " + what[:900],
                          dict(replay, messages=msgs[:k + 1], failing_message=msgs[k] if msgs else None,
                               expected=pairs_body, observed=out["responses"]))
        return False
    if corr:
        what, k = corr
        res_obj.violation("correspondence broken: " + what[:900],
                          dict(replay, kind="correspondence", correspondence="stdio_server.rs handle_request vs "
                               "RH.Lsp.Dispatch.vhdl_ls_requests", messages=msgs[:k + 1]), no_failing_input=True)
        return False
    return True


def nontrivial(msgs):
    """A session is non-trivial if it holds a request with undecodable parameters, an unknown method, a
    malformed notification and a far/odd-URI request at once."""
    inv = unk = badn = False
    for msg in msgs:
        c = classify(msg)
        if c[0] == "Q":
            if c[2] not in SCHEMA:
                unk = True
            elif not params_decode(c[2], msg):
                inv = True
        elif c[0] == "N" and c[1] in SCHEMA and not params_decode(c[1], msg):
            badn = True
    return inv and unk and badn


def coq_string(s):
    return '"%s"' % s.replace('"', '""')


def coq_cross_check(res, sample):
    """Evaluate `predict` inside Coq (vm_compute) on sampled sessions and compare with the extracted runner."""
    if not sample:
        return
    items = []
    for msgs, (pairs, stop) in sample:
        ms = []
        for msg in msgs:
            c = classify(msg)
            if c[0] == "Q":
                d = params_decode(c[2], msg) if c[2] in SCHEMA else True
                ms.append("Request %s %s %s" % (coq_string(id_token(c[1])), coq_string(c[2]), "true" if d else "false"))
            elif c[0] == "N":
                d = params_decode(c[1], msg) if c[1] in SCHEMA else True
                ms.append("Notification %s %s" % (coq_string(c[1]), "true" if d else "false"))
            elif c[0] == "R":
                ms.append("Response %s true" % coq_string(id_token(c[1])))
        exp = "; ".join("(%s, %s)" % (coq_string(i), "None" if v == "ok" else "Some (%s)%%Z" % v) for i, v in pairs)
        items.append("([%s], ([%s], %d%%nat))" % ("; ".join(ms), exp, stop))
    pre = ("From Coq Require Import List ZArith Bool String.\nImport ListNotations.\n"
           "From RH Require Import Lsp.Dispatch.\nOpen Scope string_scope.\nOpen Scope list_scope.\n"
           "Definition optz (a b : option Z) : bool := match a, b with Some x, Some y => Z.eqb x y | None, None => true | _, _ => false end.\n"
           "Fixpoint skb (a b : list (string * option Z)) : bool := match a, b with [], [] => true "
           "| (i, x) :: a', (j, y) :: b' => String.eqb i j && optz x y && skb a' b' | _, _ => false end.\n"
           "Definition cases : list (list (message string bool) * (list (string * option Z) * nat)) := [\n"
           + ";\n".join(items) + "].\n")
    body = ("forallb (fun c => match c with (ms, (sk, st)) => match predict true vhdl_ls_requests "
            "vhdl_ls_notifications ms with (sk', st') => skb sk sk' && Nat.eqb st st' end end) cases")
    v, log = coq_eval_bool(PROP, "sample", pre, body)
    res.coverage["in_coq_vm_compute_cases"] = len(items)
    if v is not True:
        res.violation("extracted model and in-Coq evaluation (vm_compute) of `predict` disagree on the sampled sessions",
                      {"kind": "correspondence", "correspondence": "extraction vs vm_compute (RH.Lsp.Dispatch.predict)",
                       "log": log[-2000:]}, no_failing_input=True)


SHUTDOWN_TAIL = [{"jsonrpc": "2.0", "id": "verif-shutdown", "method": "shutdown"},
                 {"jsonrpc": "2.0", "method": "exit"}]


def load_corpus():
    path = os.path.join(VERIF, "corpus", "C15.sessions")
    out = []
    if os.path.exists(path):
        for ln in open(path, encoding="utf-8"):
            ln = ln.strip()
            if ln and not ln.startswith("#"):
                out.append(json.loads(ln))
    return out


def main(tier, replay=None):
    res = Result(PROP, tier, level="other")
    d = rundir(PROP)
    ws = make_workspace(d)
    import time as _time
    t0 = _time.time()
    proof_stage(res, PROP, thorough=(tier == "thorough"))
    res.coverage["t_proof_s"] = round(_time.time() - t0, 1)
    t0 = _time.time()
    ok, log, vbin = vhdl_ls_build()
    if not ok:
        res.violation("vhdl_ls build failed against the current /repo tree", {"kind": "build", "log": log[-3000:]},
                      no_failing_input=True)
        return res.finish()
    ok, log, mbin = ocaml_build("c15_run")
    if not ok:
        res.violation("extracted model build failed", {"kind": "build", "log": log[-3000:]}, no_failing_input=True)
        return res.finish()

    sessions = []       # {"tag", "messages", "mode", "caps"}
    if replay:
        rp = json.load(open(replay))
        sessions.append({"tag": "replay", "messages": rp["messages"], "mode": rp.get("mode", "step"),
                         "caps": rp.get("caps", 0)})
    else:
        open_findings = {e.get("match", {}).get("mechanism"): e for e in known_findings(PROP)
                         if isinstance(e.get("match"), dict) and e["match"].get("mechanism")}
        pending = []
        for k, c in enumerate([] if os.environ.get("VERIF_C15_NO_CORPUS") else load_corpus()):   # (development aid)
            sess = {"tag": "corpus:%s" % c.get("name", k), "messages": c["messages"], "mode": "step",
                    "caps": c.get("caps", 0)}
            mech = c.get("requires_finding")
            if mech:
                # input of a defect reported to the coordinator: it is run once known_findings.json has an entry for
                # it (open: KNOWN-FINDING when it reproduces; fixed: an ordinary corpus session)
                if mech not in open_findings:
                    pending.append(c.get("name"))
                    continue
                if open_findings[mech].get("kind") == "open":
                    sess["finding"] = open_findings[mech]
            sessions.append(sess)
        res.coverage["finding_probes_waiting_for_known_findings_entry"] = pending
        n_sessions, n_msgs = (2400, 40) if tier == "thorough" else (150, 40)
        for k in range(n_sessions):
            g = Gen(seed() * 1000003 + k)
            mode = "pipelined" if k % 4 == 3 else "step"
            hist = k % 5 == 2       # remembered documents, project reload, every request kind on them
            conf = k % 5 == 4       # the configuration space of the server
            sessions.append({"tag": "gen:%d%s" % (k, "h" if hist else "c" if conf else ""),
                             "messages": g.history_session() if hist else g.config_session() if conf else g.session(n_msgs),
                             "mode": mode,
                             "caps": 1 if k % 7 == 6 else 0})

    # model predictions (messages + shutdown + exit)
    lines = [model_line(s["messages"] + SHUTDOWN_TAIL) for s in sessions]
    models = run_model(mbin, lines)
    if models is None:
        res.violation("extracted model runner failed", {"kind": "build"}, no_failing_input=True)
        return res.finish()

    res.coverage["t_build_s"] = round(_time.time() - t0, 1)
    t0 = _time.time()
    # implementation runs, in parallel
    workers = min(14, max(2, (os.cpu_count() or 4) - 2))
    stats = {"requests": 0, "notifications": 0, "client_responses": 0, "driver_actions": 0, "history_sessions": 0, "config_sessions": 0, "invalid_params": 0, "method_not_found": 0,
             "ok": 0, "ok_with_nonempty_result": 0, "undecodable_notifications": 0, "sessions_step": 0,
             "sessions_pipelined": 0}
    lock = threading.Lock()

    # wall-clock budget for the session phase (the machine may be shared): the corpus and the first 40 generated
    # sessions always run, later ones are skipped once the budget is used up (counted in the evidence)
    budget = 840.0 if tier == "thorough" else 85.0
    guaranteed = len(sessions) - max(0, len([s for s in sessions if s["tag"].startswith("gen:")]) - 40)
    skipped = [0]

    def work(i):
        s = sessions[i]
        if i >= guaranteed and _time.time() - t0 > budget:
            return i, None
        out = drive(vbin, ws, s["messages"], s["mode"], s.get("caps", 0))
        if s["mode"] != "step" and not out["init_failed"] and (
                out["died_at"] is not None or out["responses"] != models[i][0][:-1]):
            # localise: the same session message by message
            out2 = drive(vbin, ws, s["messages"], "step", s.get("caps", 0))
            if out2["died_at"] is not None or out2["responses"] != models[i][0][:-1]:
                out = out2
                out["mode_used"] = "step"
        k = out["died_at"]
        if k is not None and 0 < k < len(s["messages"]):
            # minimise: does the last message alone kill a fresh server?
            out3 = drive(vbin, ws, [s["messages"][k]], "step", s.get("caps", 0))
            if out3["died_at"] == 0:
                out["minimal"] = [s["messages"][k]]
        return i, out

    clean = 0
    suppressed = 0
    per_class = {}

    class Sink:                 # judge() reports here; at most 3 recorded violations per class, 10 in total
        def __init__(self):
            self.items = []

        def violation(self, what, replay_obj, no_failing_input=False):
            self.items.append((what, replay_obj, no_failing_input))

    with concurrent.futures.ThreadPoolExecutor(max_workers=workers) as ex:
        for i, out in ex.map(work, range(len(sessions))):
            s = sessions[i]
            if out is None:
                skipped[0] += 1
                continue
            sink = Sink()
            if judge(sink, s["tag"], s, models[i], out):
                clean += 1
            if s.get("finding") and sink.items:
                e = s["finding"]
                res.known_finding("%s %s [%s]" % (e.get("id"), e.get("open", ""), sink.items[0][0][:200]))
                sink.items = []
                clean += 1
            for what, replay_obj, nf in sink.items:
                cls = re.split(r"[:(]", what)[0][:60] + ("/" + what.split("exit status")[1][:12] if "exit status" in what else "")
                if per_class.get(cls, 0) < 3 and len(res.violations) < 10:
                    per_class[cls] = per_class.get(cls, 0) + 1
                    res.violation(what, replay_obj, no_failing_input=nf)
                else:
                    suppressed += 1
            pairs = models[i][0]
            stats["ok_with_nonempty_result"] += out.get("nonnull_ok", 0)
            stats["sessions_" + ("step" if s["mode"] == "step" else "pipelined")] += 1
            if s["messages"] and s["messages"][0].get("$verif") == "setup":
                stats["config_sessions"] += 1
            elif s["tag"].endswith("h") or any("$verif" in m for m in s["messages"]):
                stats["history_sessions"] += 1
            for msg in s["messages"]:
                c = classify(msg)
                stats[{"Q": "requests", "N": "notifications", "R": "client_responses", "A": "driver_actions"}[c[0]]] += 1
                if c[0] == "N" and c[1] in SCHEMA and not params_decode(c[1], msg):
                    stats["undecodable_notifications"] += 1
            for _i, v in pairs[:-1]:
                stats[{"ok": "ok", "-32602": "invalid_params", "-32601": "method_not_found"}[v]] += 1
            res.count_case(lines[i], nontrivial(s["messages"]))
            if i % 37 == 0:
                res.add_sample({"session": s["tag"], "mode": s["mode"], "first_messages": s["messages"][:3],
                                "predicted_skeleton": pairs[:6]})

    res.coverage["t_sessions_s"] = round(_time.time() - t0, 1)
    step = max(1, len(sessions) // 12)
    coq_cross_check(res, [(sessions[i]["messages"] + SHUTDOWN_TAIL, models[i]) for i in range(0, len(sessions), step)])

    res.coverage["sessions"] = len(sessions) - skipped[0]
    res.coverage["sessions_skipped_for_time_budget"] = skipped[0]
    res.coverage["sessions_clean"] = clean
    res.coverage["failing_sessions_not_recorded"] = suppressed
    res.coverage["traffic"] = stats
    res.coverage["exhaustive"] = False
    res.coverage["explanation"] = (
        "Theorem half (Coq, Props/C15.v): for the dispatch model of stdio_server.rs (request chain on..finish, "
        "notification chain, lsp_server::handle_shutdown, main loop) and for ALL method tables, decoders, handlers "
        "and states: if no handler panics then every lifecycle-free message list is consumed without stopping and the "
        "replies are in one-to-one in-order correspondence with the requests, same id, MethodNotFound for unknown "
        "methods, InvalidParams for undecodable parameters (C15_one_response_per_request, C15_error_codes), no Crash is "
        "reachable by traffic in which shutdown is followed by exit, whatever the notification parameters "
        "(C15_server_survives); the pre-fix notification decoding and URI conversion are refuted. "
        "Exploration half (decisive for `handlers_total` and for the fidelity of the model): generated sessions "
        "against the real vhdl_ls binary, compared with the extracted model's predicted response skeleton; liveness "
        "by a barrier request after every message; exit status of shutdown/exit.")
    res.coverage["rule"] = (
        "corpus sessions (F7, F8, F1c inputs) first; then sessions of 40 messages from VERIF_SEED: 52% requests of the "
        "15 implemented methods (62% valid parameters on project files / other workspace files / unknown, non-file, "
        "odd and unparsable URIs with positions inside, far outside (2^31-1, 2^32-1) and beyond u32; 28% with 1-2 "
        "random structural mutations at any depth: drop a field, replace a sub-value by number/null/string/bool/array/"
        "object, array form of a struct, add unknown fields, out-of-range integers; 5% null, 5% absent), 10% "
        "unimplemented request methods, 24% notifications of the 6 implemented methods (didOpen/didChange full+ranged "
        "incl. inverted and out-of-range ranges, watched files incl. vhdl_ls.toml, create/rename/delete; 33% mutated, "
        "null or absent), 9% other notifications ($/cancelRequest ...), 5% client responses; integer and string ids "
        "(incl. i32 extremes, empty string, non-ASCII); 3 of 4 sessions stepwise with a barrier after every message, "
        "1 of 4 pipelined; 1 of 7 without client capabilities. A session counts as non-trivial if it contains an "
        "undecodable request, an unknown request method and an undecodable notification; distinct by hash of the "
        "model input line")
    res.coverage["trusted_base"] = TRUSTED_BASE_COMMON + [
        "decodability oracle: structural model of serde derive semantics for the lsp-types 0.95.1 parameter types in "
        "checks/c15.py (validated against the real lsp_types decoder on generated parameters during development); URL "
        "parse results for a fixed table of URI strings",
        "lsp_server's reader/writer threads and JSON framing are outside the model (only: reader stops after `exit`)",
        "vlib/lsp.py client; barrier = request with an unknown method, answered in order by the single-threaded server",
    ]
    res.coverage["partial"] = False
    res.assumptions = [
        "well-formed traffic (DESIGN.md 4.0): ids are i32 or strings, shutdown only as the last request and followed by "
        "exit, no exit before shutdown",
        "`handlers_total` (no handler panics) is not proved but explored on the real server by the generated sessions",
    ]
    return res.finish()
