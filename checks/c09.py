"""C09 — Rename is meaning-preserving.

Theorem half (coq/Props/C09.v): the edit algebra (`Lsp/Edits.v`: a set of pairwise disjoint edits applied back to
front is the simultaneous replacement, whatever the arrival order; bytes outside the ranges unchanged; token-level
soundness of the run-time checker `rename_edits_ok`), the glue code `rename.rs` (`Lsp/Rename.v`: one edit per
returned reference, no de-duplication; prepare_rename refuses non-identifier designators) and alpha-renaming on a
reference resolution semantics.

Exploration half (this file, decisive for "meaning preserving" on the real analyser): generated error-free projects
with an independent occurrence map (checks/c09gen.py); for renameable declarations `prepareRename` + `rename`
through the vhdl_ls binary at the declaration and at one other occurrence, then
  (corr) the answers equal the extracted model of rename.rs fed with the project's item_at_cursor /
         find_declaration / find_all_references answers (harness bin c09);
  (iv)   every edit covers exactly one identifier token spelled like the old name, edits pairwise disjoint, no
         duplicates (extracted `rename_edits_ok` + independent python tokenizer), and the edit set equals the
         generator's occurrence set of the entity: no occurrence missed, nothing else touched (iii);
  (app)  the WorkspaceEdit is applied with the extracted `Edits.apply_edits` and an independent python
         implementation (must agree), the edited files are written to a fresh workspace and analysed again;
  (i)    still no error diagnostic, all diagnostics equal up to the substituted name and the shifted coordinates;
  (ii)   the reference map (position -> declaration position) and `find_all_references` of every declaration are
         the same graph under the position shift, the renamed entity carrying the new name;
  (v)    prepareRename answers null on operator symbols (use and declaration) and character literals.
"""
import json
import os
import random as random_mod
import shutil
import subprocess
import threading
from concurrent.futures import ThreadPoolExecutor

from vlib.common import *
from vlib import lsp
from checks import c09gen

PROP = "C09"
NEW_NAME = "zz_ren_q7"

# Constructs in which the implementation does not resolve names, so that a rename misses occurrences there.
# A finding family is reported as KNOWN-FINDING only if known_findings.json holds an `open` C09 entry whose
# match.site_kind is the key; otherwise it is a VIOLATION.
FINDING_SITES = {
    "config_spec": "configuration specification in an architecture (`for inst : comp use entity lib.ent(arch);`): "
                   "instance label, component, entity and architecture names are not resolved",
    "block_config": "block/component configuration inside a configuration declaration (`for arch`, `for inst : comp`, "
                    "`use entity lib.ent(arch)`): names are not resolved",
    "record_resolution_element": "record element simple name in a record resolution indication "
                                 "(`subtype r is (fb res_f) rec_t;`) is not resolved",
    "config_inst_formal": "formal part of the port/generic map of a configuration instantiation "
                          "(`u : configuration work.cfg port map (clk => c);`) is not resolved",
    "two_libraries": "file mapped to two libraries: only the entity of one library is renamed, references through the "
                     "other library keep the old name although the shared file is edited",
}


# ----------------------------------------------------------------------------------------------
# text helpers (independent of the model)
# ----------------------------------------------------------------------------------------------
def u16(s):
    b = s.encode("utf-16-le")
    return [b[i:i + 2] for i in range(0, len(b), 2)]


def from_u16(units):
    return b"".join(units).decode("utf-16-le")


def py_apply_edits(text, edits):
    """edits: [(l0, c0, l1, c1, new)]; LSP semantics: ranges against the original text, applied back to front."""
    lines = [u16(l) for l in text.split("\n")]
    # flatten to one unit array with line starts
    starts = []
    flat = []
    for i, l in enumerate(lines):
        starts.append(len(flat))
        flat.extend(l)
        if i + 1 < len(lines):
            flat.extend(u16("\n"))

    def off(l, c):
        if l >= len(lines):
            return len(flat)
        return starts[l] + min(c, len(lines[l]))
    oes = sorted(((off(l0, c0), off(l1, c1), new) for (l0, c0, l1, c1, new) in edits), key=lambda x: (x[0], x[1]))
    for a, b, new in reversed(oes):
        flat[a:b] = u16(new)
    return from_u16(flat)


IDENT_START = set("abcdefghijklmnopqrstuvwxyzABCDEFGHIJKLMNOPQRSTUVWXYZ") | {chr(c) for c in range(192, 256) if c not in (215, 247)}
IDENT_CHARS = IDENT_START | set("0123456789_")


def ident_tokens(text):
    """independent recogniser: {(line, c0, c1): spelling} of every identifier token (basic and extended) of a VHDL text,
    skipping comments, string / character literals, abstract literals (incl. based ones and exponents)."""
    out = {}
    line = 0
    col = 0          # utf-16 column
    i = 0
    n = len(text)
    prev_sig = ""    # last significant token class: "id", ")" or other
    while i < n:
        c = text[i]
        if c == "\n":
            line += 1
            col = 0
            i += 1
            continue
        if c == "-" and text.startswith("--", i):
            j = text.find("\n", i)
            j = n if j < 0 else j
            col += c09gen.len16(text[i:j])
            i = j
            continue
        if c == "/" and text.startswith("/*", i):
            j = text.find("*/", i + 2)
            j = n if j < 0 else j + 2
            seg = text[i:j]
            if "\n" in seg:
                line += seg.count("\n")
                col = c09gen.len16(seg[seg.rfind("\n") + 1:])
            else:
                col += c09gen.len16(seg)
            i = j
            continue
        if c == '"':
            j = i + 1
            while j < n:
                if text[j] == '"':
                    if j + 1 < n and text[j + 1] == '"':
                        j += 2
                        continue
                    break
                j += 1
            j = min(n, j + 1)
            col += c09gen.len16(text[i:j])
            i = j
            prev_sig = "lit"
            continue
        if c == "'":
            if i + 2 < n and text[i + 2] == "'" and prev_sig not in ("id", ")"):
                col += c09gen.len16(text[i:i + 3])
                i += 3
                prev_sig = "lit"
                continue
            col += 1
            i += 1
            prev_sig = "'"
            continue
        if c == "\\":
            j = i + 1
            while j < n:
                if text[j] == "\\":
                    if j + 1 < n and text[j + 1] == "\\":
                        j += 2
                        continue
                    break
                j += 1
            j = min(n, j + 1)
            w = c09gen.len16(text[i:j])
            out[(line, col, col + w)] = text[i:j]
            col += w
            i = j
            prev_sig = "id"
            continue
        if c.isdigit():
            j = i
            while j < n and (text[j].isalnum() or text[j] in "_.#"):
                # exponent sign
                j += 1
                if j < n and text[j] in "+-" and text[j - 1] in "eE" and "#" not in text[i:j]:
                    j += 1
            col += c09gen.len16(text[i:j])
            i = j
            prev_sig = "lit"
            continue
        if c in IDENT_START:
            j = i
            while j < n and text[j] in IDENT_CHARS:
                j += 1
            w = j - i
            # bit string literal x"..": the base specifier is not an identifier
            if j < n and text[j] == '"' and text[i:j].lower() in ("b", "o", "x", "d", "ub", "uo", "ux", "sb", "so", "sx"):
                col += w
                i = j
                continue
            out[(line, col, col + w)] = text[i:j]
            col += w
            i = j
            prev_sig = "id"
            continue
        if not c.isspace():
            prev_sig = ")" if c in ")]" else c
        col += c09gen.len16(c)
        i += 1
    return out


def shift_col(edits_on_line, col, new_len):
    """new column of original column `col`: every edit of the line that ends at or before it moves it"""
    return col + sum(new_len - (c1 - c0) for (c0, c1) in edits_on_line if c1 <= col)


class Shifter:
    """position map of a rename (all edits single-line, same replacement)"""
    def __init__(self, edits_by_file, new_name):
        self.by = {}
        self.new_len = c09gen.len16(new_name)
        self.set = set()
        for f, es in edits_by_file.items():
            for (l0, c0, l1, c1) in es:
                self.by.setdefault((f, l0), []).append((c0, c1))
                self.set.add((f, l0, c0, l1, c1))

    def rng(self, f, r):
        l0, c0, l1, c1 = r
        if (f, l0) not in self.by and (l1 == l0 or (f, l1) not in self.by):
            return r            # no edit on these lines: position unchanged
        if (f, l0, c0, l1, c1) in self.set:
            s = shift_col(self.by[(f, l0)], c0, self.new_len)
            return [l0, s, l1, s + self.new_len]
        return [l0, shift_col(self.by.get((f, l0), []), c0, self.new_len),
                l1, shift_col(self.by.get((f, l1), []), c1, self.new_len)]

    def loc(self, loc):
        if loc is None:
            return None
        return [loc[0], self.rng(loc[0], loc[1])]


# ----------------------------------------------------------------------------------------------
# project on disk, snapshots
# ----------------------------------------------------------------------------------------------
def write_project(dirpath, texts, libs, open_files):
    if os.path.isdir(dirpath):
        shutil.rmtree(dirpath)
    os.makedirs(dirpath)
    for f, t in texts.items():
        with open(os.path.join(dirpath, f), "wb") as fh:
            fh.write(t.encode("utf-8" if f in open_files else "latin-1"))
    with open(os.path.join(dirpath, "vhdl_ls.toml"), "w") as fh:
        fh.write("[libraries]\n")
        for lib, fs in libs.items():
            fh.write("%s.files = [%s]\n" % (lib, ", ".join("'%s'" % x for x in fs)))


def std_libs_dir(d):
    p = os.path.join(d, "stdlibs")
    os.makedirs(p, exist_ok=True)
    with open(os.path.join(p, "vhdl_ls.toml"), "w") as fh:
        fh.write("[libraries]\nstd.files = ['/repo/vhdl_libraries/std/*.vhd']\nstd.is_third_party = true\n")
    return p


def run_snapshots(hbin, d, tag, jobs, nproc=12):
    """jobs: list of dicts for the harness; returns list of result dicts (same order)"""
    if not jobs:
        return []
    chunks = [jobs[i::nproc] for i in range(nproc)]
    chunks = [c for c in chunks if c]
    procs = []
    for k, c in enumerate(chunks):
        jp = os.path.join(d, "%s.jobs.%d.json" % (tag, k))
        op = os.path.join(d, "%s.out.%d.jsonl" % (tag, k))
        json.dump(c, open(jp, "w"))
        procs.append((subprocess.Popen([hbin, jp, op], stdout=subprocess.PIPE, stderr=subprocess.STDOUT), op, c))
    res = {}
    for p, op, c in procs:
        out, _ = p.communicate(timeout=3000)
        lines = open(op).read().split("\n") if p.returncode == 0 and os.path.exists(op) else []
        for j, job in enumerate(c):
            try:
                res[job["dir"]] = json.loads(lines[j])
            except Exception:
                res[job["dir"]] = {"dir": job["dir"], "error": "harness failed rc=%s %s" % (p.returncode, (out or b"")[-300:])}
    return [res[j["dir"]] for j in jobs]


# ----------------------------------------------------------------------------------------------
# LSP session of one project
# ----------------------------------------------------------------------------------------------
def parse_changes(result):
    """WorkspaceEdit -> {file path: [(l0,c0,l1,c1,new)]} in the order of the answer"""
    out = {}
    ch = (result or {}).get("changes") or {}
    for u, es in ch.items():
        path = u[len("file://"):] if u.startswith("file://") else u
        out[path] = [(e["range"]["start"]["line"], e["range"]["start"]["character"],
                      e["range"]["end"]["line"], e["range"]["end"]["character"], e["newText"]) for e in es]
    return out


DUP_FILE = "zz_dup_hist.vhd"
DUP_FINAL = "package zz_dup_hist_pk is\nend package zz_dup_hist_pk;\n"


def add_history(g, R):
    """Turns project g into a HISTORY session: the server runs on a workspace whose disk contents differ from the
    client's text (unsaved edits that shift lines/columns), sees configuration reloads of every kind, a duplicate-unit
    clash that is resolved by editing the other file, and only then the rename requests.  The client's final text is
    exactly g["texts"] (+ one harmless extra file), so the oracle (fresh analysis before/after) is unchanged."""
    import re
    lib0 = None
    # the unit that is duplicated: a primary entity/package of some file
    cands = []
    for f in g["order"]:
        for m in re.finditer(r"(?im)^[ \t]*(entity|package)[ \t]+([A-Za-z][A-Za-z0-9_]*)[ \t]+is\b", g["texts"][f]):
            cands.append((f, m.group(1).lower(), m.group(2)))
    g["hist"] = {"clash": None}
    if cands:
        f, kind, name = R.choice(cands)
        lib0 = [l for l, fs in g["libs"].items() if f in fs][0]
        g["hist"]["clash"] = {"file": f, "kind": kind, "unit": name,
                              "dup_text": "%s %s is\nend %s %s;\n" % (kind, name, kind, name)}
    lib0 = lib0 or list(g["libs"])[0]
    g["texts"] = dict(g["texts"])
    g["texts"][DUP_FILE] = DUP_FINAL
    g["order"] = list(g["order"]) + [DUP_FILE]
    g["libs"] = {l: list(fs) + ([DUP_FILE] if l == lib0 else []) for l, fs in g["libs"].items()}
    # unsaved edits: disk text differs from the client's text
    others = [f for f in g["order"] if f != DUP_FILE]
    R.shuffle(others)
    shifted = {}
    disk = dict(g["texts"])
    for f in others[:max(2, len(others) // 2)]:
        v = R.choice(["lines", "cols", "both", "open_only"])
        t = g["texts"][f]
        if v == "lines":
            disk[f] = "-- stale header\n\n" + t
        elif v == "cols":
            disk[f] = " " + t.replace("\n", "\n ")
        elif v == "both":
            disk[f] = "-- stale\n  " + t.replace("\n", "\n  ")
        else:
            disk[f] = "-- only on disk\n" + t
        shifted[f] = v
    g["hist"]["shifted"] = shifted
    g["disk_texts"] = disk
    acts = ["touch", "drop_restore", "create", "rename", "delete"]
    R.shuffle(acts)
    g["hist"]["reloads"] = acts[:R.randrange(2, 5)]
    drop = [f for f in others if not g["hist"]["clash"] or f != g["hist"]["clash"]["file"]]
    g["hist"]["drop_file"] = R.choice(drop) if drop else None
    g["family"] = "history:%s" % g["family"]
    g["history"] = True
    return g


def toml_text(libs, without=None):
    out = "[libraries]\n"
    for lib, fs in libs.items():
        out += "%s.files = [%s]\n" % (lib, ", ".join("'%s'" % x for x in fs if x != without))
    return out


def run_history(ls, sdir, g, view):
    h = g["hist"]
    ver = {}

    def U(f):
        return lsp.uri(os.path.join(sdir, f))

    def did_open(f, text):
        ver[f] = 1
        ls.notify("textDocument/didOpen", {"textDocument": {"uri": U(f), "languageId": "vhdl", "version": 1, "text": text}})

    def change_full(f, text):
        if f not in ver:
            did_open(f, text)
            return
        ver[f] += 1
        ls.notify("textDocument/didChange", {"textDocument": {"uri": U(f), "version": ver[f]}, "contentChanges": [{"text": text}]})

    # (1) unsaved edits: the client's buffers differ from the files on disk
    for f, v in h["shifted"].items():
        if v == "lines":
            did_open(f, g["disk_texts"][f])
            ver[f] += 1
            ls.notify("textDocument/didChange", {"textDocument": {"uri": U(f), "version": ver[f]}, "contentChanges": [
                {"range": {"start": {"line": 0, "character": 0}, "end": {"line": 2, "character": 0}}, "text": ""}]})
        elif v == "open_only":
            did_open(f, g["texts"][f])
        else:
            did_open(f, g["disk_texts"][f])
            change_full(f, g["texts"][f])
    for f in g["open"]:
        if f not in ver:
            did_open(f, g["texts"][f])
    lsp.publish_map(ls.sync(), view)
    # (2) configuration reloads of every kind (after them the in-memory buffers must still be used)
    toml = os.path.join(sdir, "vhdl_ls.toml")
    for act in h["reloads"]:
        if act == "touch":
            open(toml, "w").write(toml_text(g["libs"]))
            ls.notify("workspace/didChangeWatchedFiles", {"changes": [{"uri": lsp.uri(toml), "type": 2}]})
        elif act == "drop_restore" and h["drop_file"]:
            open(toml, "w").write(toml_text(g["libs"], without=h["drop_file"]))
            ls.notify("workspace/didChangeWatchedFiles", {"changes": [{"uri": lsp.uri(toml), "type": 2}]})
            lsp.publish_map(ls.sync(), view)
            open(toml, "w").write(toml_text(g["libs"]))
            ls.notify("workspace/didChangeWatchedFiles", {"changes": [{"uri": lsp.uri(toml), "type": 2}]})
        elif act == "create":
            ls.notify("workspace/didCreateFiles", {"files": [{"uri": U("zz_new_file.vhd")}]})
        elif act == "rename":
            ls.notify("workspace/didRenameFiles", {"files": [{"oldUri": U("zz_old.vhd"), "newUri": U("zz_new.vhd")}]})
        elif act == "delete":
            ls.notify("workspace/didDeleteFiles", {"files": [{"uri": U("zz_gone.vhd")}]})
        lsp.publish_map(ls.sync(), view)
    # (3) duplicate-unit clash, resolved by editing the OTHER file: the unit of `file` is parked as a duplicate of
    #     the one in DUP_FILE and takes over when DUP_FILE changes
    c = h["clash"]
    if c:
        change_full(c["file"], "-- emptied\n")
        change_full(DUP_FILE, c["dup_text"])
        lsp.publish_map(ls.sync(), view)
        change_full(c["file"], g["texts"][c["file"]])
        lsp.publish_map(ls.sync(), view)
        change_full(DUP_FILE, DUP_FINAL)
    lsp.publish_map(ls.sync(), view)


def lsp_session(lsbin, pdir, libsdir, g, requests):
    """requests: list of dicts {file, line, char, rename: bool}; fills 'prepare' and 'rename' answers.
    Returns (diagnostics view, capabilities).  History sessions run the server in g["sdir"]; URIs of the answers
    are mapped back to g["dir"]."""
    client_dir = pdir
    pdir = g.get("sdir", pdir)
    ls = lsp.LS(lsbin, pdir, libraries=libsdir)
    try:
        resp, others = ls.initialize()
        caps = (resp.get("result") or {}).get("capabilities") or {}
        view = lsp.publish_map(others)
        if g.get("history"):
            run_history(ls, pdir, g, view)
        else:
            for f in g["open"]:
                ls.notify("textDocument/didOpen", {"textDocument": {"uri": lsp.uri(os.path.join(pdir, f)), "languageId": "vhdl",
                                                                    "version": 1, "text": g["texts"][f]}})
            if g["open"]:
                lsp.publish_map(ls.sync(), view)
        for rq in requests:
            td = {"textDocument": {"uri": lsp.uri(os.path.join(pdir, rq["file"]))},
                  "position": {"line": rq["line"], "character": rq["char"]}}
            pr, _ = ls.call("textDocument/prepareRename", td)
            rq["prepare"] = pr.get("result") if "error" not in pr else {"error": pr["error"]}
            if rq.get("rename"):
                td2 = dict(td)
                td2["newName"] = NEW_NAME
                rn, _ = ls.call("textDocument/rename", td2)
                rq["rename_raw"] = rn.get("result") if "error" not in rn else {"error": rn["error"]}
        rc = ls.shutdown()
        if pdir != client_dir:
            a_, b_ = "file://" + pdir + "/", "file://" + client_dir + "/"
            view = {u.replace(a_, b_, 1): v for u, v in view.items()}
            for rq in requests:
                raw = rq.get("rename_raw")
                if isinstance(raw, dict) and isinstance(raw.get("changes"), dict):
                    raw["changes"] = {u.replace(a_, b_, 1): v for u, v in raw["changes"].items()}
        return view, caps, None
    except lsp.ServerDied as ex:
        ls.kill()
        return {}, {}, "server died: %s" % ex


# ----------------------------------------------------------------------------------------------
# the check
# ----------------------------------------------------------------------------------------------
def family_of(seed_, idx):
    k = idx % 14
    return [None, None, "config_spec", None, "block_config", None, None, "block_map_formal", None, None,
            None, "two_libraries", None, "resolution_function"][k]


def known_site_entries():
    return {e.get("match", {}).get("site_kind"): e for e in known_findings(PROP) if e.get("kind") == "open"}


class Ctx:
    pass


def pick_entities(R, ents, limit):
    """renameable entities to test; with a limit: round-robin over kinds so that every kind shows up"""
    cand = [x for x in ents if x.renameable and any(o.role == "d" for o in x.occs)]
    if limit is None or len(cand) <= limit:
        return cand
    # the signature section (last files of a project) is sampled with its own random stream, so that the sample of
    # the rest of the project does not depend on it
    sg = [x for x in cand if getattr(x, "sigfam", False)]
    cand = [x for x in cand if not getattr(x, "sigsec", False)]
    R2 = random_mod.Random("sig:%d:%s" % (len(sg), sg[0].name if sg else ""))
    R2.shuffle(sg)
    sg_spec = [x for x in sg if any(o.site == "attr_spec_sig" for o in x.occs)]
    sg_pick = sg_spec[:2] + [x for x in sg if x not in sg_spec][:1]
    must = [x for x in cand if x.finding or any(o.site and o.site not in ("use_item", "attr_spec_alias", "attr_spec_sig")
                                                 for o in x.occs)]
    # aliases, their targets and items named in by-item use clauses: a sample in every project
    focus = [x for x in cand if x not in must and (getattr(x, "focus", False)
                                                   or any(o.site in ("use_item", "attr_spec_alias") for o in x.occs))]
    R.shuffle(focus)
    must += focus[:3]
    ovl = [x for x in cand if x not in must and getattr(x, "ovl", False)]
    R.shuffle(ovl)
    must += ovl[:2]
    cross = [x for x in cand if getattr(x, "cross", False) and x not in must and len(set(o.file for o in x.occs)) > 1]
    R.shuffle(cross)
    must += cross[:2]
    cand = [x for x in cand if x not in must]
    by = {}
    for x in cand:
        by.setdefault(x.kind, []).append(x)
    kinds = sorted(by)
    R.shuffle(kinds)
    out = list(must)
    limit += len(must)
    while len(out) < limit and kinds:
        for k in list(kinds):
            if not by[k]:
                kinds.remove(k)
                continue
            out.append(by[k].pop(R.randrange(len(by[k]))))
            if len(out) >= limit:
                break
    # overloads named with a signature (attribute specifications, alias declarations) and aliases of them
    return out + sg_pick


def main(tier, replay=None):
    import random
    res = Result(PROP, tier, level="other")
    d = rundir(PROP)
    proof_stage(res, PROP, thorough=(tier == "thorough"))
    ok, log, hbin = harness_build("c09")
    if not ok:
        res.violation("harness build failed against the current /repo tree", {"kind": "build", "log": log[-3000:]},
                      no_failing_input=True)
        return res.finish()
    ok, log, mbin = ocaml_build("c09_run")
    if not ok:
        res.violation("extracted model build failed", {"kind": "build", "log": log[-3000:]}, no_failing_input=True)
        return res.finish()
    ok, log, lsbin = vhdl_ls_build()
    if not ok:
        res.violation("vhdl_ls build failed", {"kind": "build", "log": log[-3000:]}, no_failing_input=True)
        return res.finish()
    libsdir = std_libs_dir(d)
    known = known_site_entries()

    # ---- which projects / entities
    if replay:
        rp = json.load(open(replay))
        rfam = rp.get("family")
        is_hist = bool(rp.get("history"))
        if is_hist and isinstance(rfam, str) and rfam.startswith("history:"):
            rfam = rfam[len("history:"):]
            rfam = None if rfam == "None" else rfam
        plan = [] if rp["seed"] == "corpus" else ([] if is_hist else [(rp["seed"], rp["idx"], rfam)])
        hist_plan = [(rp["seed"], rp["idx"])] if is_hist else []
        only_ent = rp.get("ent_id")
        limit = None
    else:
        nproj = 60 if tier == "quick" else 150
        plan = [(seed(), i, family_of(seed(), i)) for i in range(nproj)]
        only_ent = None
        limit = 3 if tier == "quick" else None
        # history sessions: 6 generated + 2 corpus projects (thorough: 24 + 2) on a long-lived server
        hidx = [i for i in range(nproj) if family_of(seed(), i) is None]
        hist_plan = [(seed(), i) for i in hidx[:6 if tier == "quick" else 24]] + [("corpus", "sound_basics"),
                                                                                ("corpus", "entity_decl_items_cross_file")]
    corpus = load_corpus()
    if replay:
        corpus = [c for c in corpus if rp["seed"] == "corpus" and c["idx"] == rp["idx"]]

    projects = []
    pdir_root = os.path.join(d, "proj")
    if os.path.isdir(pdir_root):
        shutil.rmtree(pdir_root)
    for g in corpus:          # corpus first
        g["dir"] = os.path.join(pdir_root, "corpus%d" % g["idx"])
        projects.append(g)
    for (sd, idx, fam) in plan:
        g = c09gen.gen_project(sd, idx, fam)
        g["seed"], g["idx"] = sd, idx
        g["dir"] = os.path.join(pdir_root, "p%d_%d" % (sd, idx))
        projects.append(g)
    for (sd, idx) in hist_plan:
        if sd == "corpus":
            cs = [c for c in load_corpus() if c["family"] == "corpus:%s" % idx or c["idx"] == idx]
            if not cs:
                continue
            g = cs[0]
        else:
            g = c09gen.gen_project(sd, idx, None)
            g["seed"], g["idx"] = sd, idx
        add_history(g, random.Random("hist:%s:%s" % (sd, idx)))
        g["dir"] = os.path.join(pdir_root, "h%s_%s" % (sd, g["idx"]))
        g["sdir"] = g["dir"] + "_srv"
        projects.append(g)
    stats = {"projects": len(projects), "not_error_free": 0, "renames": 0, "distinct_edit_sets": 0, "refusal_probes": 0,
             "kinds": {}, "families": {}, "edits": 0, "files_touched_max": 0, "known_finding_cases": {},
             "unicode_projects": 0, "prepare_none_on_identifier": 0}
    viol_budget = [12]

    def violation(what, obj, nf=False):
        if viol_budget[0] > 0:
            viol_budget[0] -= 1
            res.violation(what, obj, no_failing_input=nf)
        else:
            stats["violations_not_listed"] = stats.get("violations_not_listed", 0) + 1

    def replay_obj(g, rq=None, extra=None):
        o = {"kind": "input", "seed": g.get("seed"), "idx": g.get("idx"), "family": g["family"],
             "libraries": g["libs"], "files": g["texts"], "opened_by_client": g["open"],
             "replay_cmd": "./check C09 --replay <this file>"}
        if g.get("history"):
            o["history"] = True
            o["history_steps"] = {"files_on_disk": g["disk_texts"], "unsaved_edit_kinds": g["hist"]["shifted"],
                                  "config_reloads": g["hist"]["reloads"], "dropped_and_restored_file": g["hist"]["drop_file"],
                                  "duplicate_unit_clash": g["hist"]["clash"],
                                  "order": "didOpen/didChange until the buffers equal `files`; reloads; clash (empty file, "
                                           "duplicate in %s, restore file, restore %s); then the request" % (DUP_FILE, DUP_FILE)}
        if rq is not None:
            o["request"] = {"file": rq["file"], "line": rq["line"], "character": rq["char"], "newName": NEW_NAME}
            if rq.get("ent") is not None:
                o["ent_id"] = rq["ent"].id
                o["entity"] = "%s %s" % (rq["ent"].kind, rq["ent"].name)
        if extra:
            o.update(extra)
        return o

    agg = {}
    cross_checked = [False]

    def run_batch(projects):
        if os.path.isdir(pdir_root):
            shutil.rmtree(pdir_root)
        for g in projects:
            write_project(g["dir"], g["texts"], g["libs"], g["open"])
            if g.get("history"):
                write_project(g["sdir"], g["disk_texts"], g["libs"], g["open"])
        # ---- requests per project
        for g in projects:
            R = random.Random("pick:%s:%s" % (g.get("seed"), g.get("idx")))
            ents = pick_entities(R, g["ents"], None if g.get("seed") == "corpus" else limit)
            if g.get("history") and g.get("seed") != "corpus":
                # entities declared in the file whose unit took over after the clash, and in files with unsaved edits
                cf = (g["hist"]["clash"] or {}).get("file")
                pool = [x for x in g["ents"] if x.renameable and any(o.role == "d" for o in x.occs)]
                in_c = [x for x in pool if any(o.role == "d" and o.file == cf for o in x.occs)]
                in_s = [x for x in pool if x not in in_c and any(o.role == "d" and o.file in g["hist"]["shifted"] for o in x.occs)]
                R.shuffle(in_c)
                R.shuffle(in_s)
                ents = in_c[:5] + in_s[:5]
            if only_ent is not None:
                ents = [x for x in g["ents"] if x.id == only_ent]
            reqs = []
            for x in ents:
                # rename from the declaration, every further defining occurrence (body / full declaration), every end
                # identifier and one reference per file (one of them through a package instance where there is one);
                # every one of these requests must produce the same (expected) edit set
                decl = [o for o in x.occs if o.role == "d"][0]
                cur = [decl] + [o for o in x.occs if o.role in ("d", "e") and o is not decl]
                by_file = {}
                for o in x.occs:
                    if o.role == "r":
                        by_file.setdefault((o.file, o.site == "pkg_instance_ref"), []).append(o)
                for k_ in sorted(by_file):
                    cur.append(R.choice(by_file[k_]))
                for o in cur:
                    k = R.choice([0, 0, R.randrange(0, o.c1 - o.c0 + 1), o.c1 - o.c0])
                    reqs.append({"file": o.file, "line": o.line, "char": o.c0 + k, "rename": True, "ent": x, "occ": o})
            for m in g["marks"]:
                reqs.append({"file": m.file, "line": m.line, "char": m.c0 + (1 if m.kind.startswith("char") or m.kind == "op_decl" else 0),
                             "rename": False, "mark": m})
            g["reqs"] = reqs
            stats["families"][str(g["family"])] = stats["families"].get(str(g["family"]), 0) + 1
            if g["open"]:
                stats["unicode_projects"] += 1

        # ---- base snapshots (with the cursor queries of rename.rs)
        jobs = [{"dir": g["dir"], "files": [os.path.join(g["dir"], f) for f in g["order"]],
                 "open": [os.path.join(g["dir"], f) for f in g["open"]], "libs": libsdir, "full": False,
                 "queries": [[os.path.join(g["dir"], q["file"]), q["line"], q["char"]] for q in g["reqs"]]} for g in projects]
        base = run_snapshots(hbin, d, "base", jobs)
        for g, b in zip(projects, base):
            g["base"] = b

        # ---- LSP sessions in parallel
        def sess(g):
            g["view"], g["caps"], g["lsp_error"] = lsp_session(lsbin, g["dir"], libsdir, g, g["reqs"])
        with ThreadPoolExecutor(max_workers=12) as ex:
            list(ex.map(sess, projects))

        # ---- evaluate answers, build the rename cases
        cases = []        # one per distinct (project, edit set)
        model_lines = []  # lines for the extracted runner
        model_refs = []   # (kind, payload) aligned with model_lines
        for g in projects:
            b = g["base"]
            if "error" in b:
                violation("harness snapshot failed: %s" % b["error"], replay_obj(g), nf=True)
                continue
            if g["lsp_error"]:
                violation("language server died during prepareRename/rename: %s" % g["lsp_error"], replay_obj(g))
                continue
            errs = [x for x in b["diags"] if x["error"]]
            if errs:
                # the property only speaks about error-free projects: generator defect, not a finding
                stats["not_error_free"] += 1
                stats.setdefault("not_error_free_examples", [])
                if len(stats["not_error_free_examples"]) < 3:
                    stats["not_error_free_examples"].append({"seed": g.get("seed"), "idx": g.get("idx"), "family": g["family"],
                                                              "diag": errs[0]})
                continue
            rp = (g["caps"].get("renameProvider") or {})
            if not (isinstance(rp, dict) and rp.get("prepareProvider") is True):
                violation("server does not announce renameProvider.prepareProvider: clients would not ask prepareRename "
                          "before renaming operator symbols", replay_obj(g))
            # server diagnostics == snapshot diagnostics (the snapshot tool sees what the server sees)
            sv = set()
            for u, ds in g["view"].items():
                for x in ds:
                    r = x["range"]
                    sv.add((u[len("file://"):], r["start"]["line"], r["start"]["character"], r["end"]["line"], r["end"]["character"],
                            x["message"]))
            hv = set((x["loc"][0], *x["loc"][1], x["message"]) for x in b["diags"])
            if sv != hv:
                violation("diagnostics published by the server differ from Project::analyse of the snapshot tool",
                          replay_obj(g, extra={"kind": "correspondence", "correspondence": "vhdl_ls publishDiagnostics vs harness c09",
                                               "only_server": sorted(sv - hv)[:5], "only_harness": sorted(hv - sv)[:5]}), nf=True)
            fidx = {os.path.join(g["dir"], f): i for i, f in enumerate(g["order"])}
            toks = {f: ident_tokens(t) for f, t in g["texts"].items()}
            seen_sets = {}
            for rq, ans in zip(g["reqs"], b.get("answers", [])):
                iac = ans.get("iac")
                # ---- model of prepare_rename
                item = "-" if iac is None else "%s,%d,%d,%d,%d" % (iac["dk"], *iac["range"])
                model_lines.append("P|1%d|%s" % (1 if ans.get("source") else 0, item))
                model_refs.append(("P", g, rq))
                if not rq["rename"]:
                    stats["refusal_probes"] += 1
                    res.count_case("refuse:%s:%s:%s" % (g.get("idx"), rq["mark"].kind, rq["line"]), True)
                    if rq["prepare"] is not None:
                        violation("(v) prepareRename is not refused on %s `%s`" % (rq["mark"].kind, rq["mark"].text),
                                  replay_obj(g, rq, {"answer": rq["prepare"]}))
                    continue
                x = rq["ent"]
                o = rq["occ"]
                stats["renames"] += 1
                stats["kinds"][x.kind] = stats["kinds"].get(x.kind, 0) + 1
                if iac is not None and iac.get("library"):
                    continue
                # ---- model of rename
                far = ans.get("far")
                if far is None:
                    model_lines.append("R|1%d|0|%s|" % (1 if ans.get("source") else 0, " ".join(str(ord(c)) for c in NEW_NAME)))
                else:
                    outside = [p for p in far if p[0] not in fidx]
                    for p in outside:
                        fidx.setdefault(p[0], len(fidx))
                    model_lines.append("R|11|1|%s|%s" % (" ".join(str(ord(c)) for c in NEW_NAME),
                                                        ";".join("%d,%d,%d,%d,%d" % (fidx[p[0]], *p[1]) for p in far)))
                model_refs.append(("R", g, rq, dict(fidx)))
                # ---- oracle on the answers
                pr = rq["prepare"]
                if pr is None:
                    stats["prepare_none_on_identifier"] += 1
                    if len(stats.setdefault("prepare_none_examples", [])) < 10:
                        stats["prepare_none_examples"].append("%s/%s %s:%d:%d %s" % (g.get("seed"), g.get("idx"), rq["file"], rq["line"], rq["char"], x.name))
                    if iac is None:
                        # the search does not find the identifier at all (C08's subject); rename is then impossible, not wrong
                        continue
                elif "error" in pr:
                    violation("prepareRename answered an error", replay_obj(g, rq, {"answer": pr}))
                    continue
                else:
                    got = [pr["start"]["line"], pr["start"]["character"], pr["end"]["line"], pr["end"]["character"]]
                    if got != [o.line, o.c0, o.line, o.c1]:
                        violation("prepareRename range %s is not the identifier token %s" % (got, [o.line, o.c0, o.line, o.c1]),
                                  replay_obj(g, rq, {"answer": pr}))
                raw = rq.get("rename_raw")
                if isinstance(raw, dict) and "error" in raw:
                    violation("rename answered an error", replay_obj(g, rq, {"answer": raw}))
                    continue
                changes = parse_changes(raw)
                rq["changes"] = changes
                edits_by_file = {}
                bad = None
                for path, es in changes.items():
                    rel = os.path.relpath(path, g["dir"])
                    if rel not in g["texts"]:
                        bad = "(iv) rename edits a file outside the project: %s" % path
                        break
                    for (l0, c0, l1, c1, new) in es:
                        if new != NEW_NAME:
                            bad = "(iv) edit text %r is not the new name" % new
                        edits_by_file.setdefault(rel, []).append((l0, c0, l1, c1))
                if bad:
                    violation(bad, replay_obj(g, rq, {"answer": raw}))
                    continue
                flat = [(f, *e) for f, es in edits_by_file.items() for e in es]
                stats["edits"] += len(flat)
                stats["files_touched_max"] = max(stats["files_touched_max"], len(edits_by_file))
                # (iv) token-level, independent recogniser
                problems = []
                if len(set(flat)) != len(flat):
                    problems.append("duplicate edits: %s" % sorted(p for p in set(flat) if flat.count(p) > 1)[:3])
                for (f, l0, c0, l1, c1) in sorted(set(flat)):
                    sp = toks[f].get((l0, c0, c1)) if l0 == l1 else None
                    if sp is None:
                        problems.append("edit %s %s does not cover exactly one identifier token" % (f, [l0, c0, l1, c1]))
                    elif (sp != x.name if x.extended else sp.lower() != x.name.lower()):
                        problems.append("edit %s %s covers `%s`, not the old name `%s`" % (f, [l0, c0, l1, c1], sp, x.name))
                if problems:
                    violation("(iv) " + "; ".join(problems[:3]), replay_obj(g, rq, {"edits": sorted(flat)}))
                    continue
                # (iii)+(iv) against the generator's occurrence set
                expected = set((oc.file, oc.line, oc.c0, oc.line, oc.c1) for oc in x.occs)
                got = set(flat)
                missed = expected - got
                extra = got - expected
                if missed or extra:
                    sites = set(oc.site for oc in x.occs if (oc.file, oc.line, oc.c0, oc.line, oc.c1) in missed)
                    site = None
                    if not extra and missed:
                        if x.finding and x.finding in FINDING_SITES:
                            site = x.finding
                        elif len(sites) == 1 and list(sites)[0] in FINDING_SITES:
                            site = list(sites)[0]
                    if site and site in known:
                        stats["known_finding_cases"][site] = stats["known_finding_cases"].get(site, 0) + 1
                        res.count_case("known:%s:%s:%s" % (g.get("idx"), x.id, site), True)
                        g.setdefault("known_examples", {}).setdefault(site, (rq, sorted(missed)))
                        continue
                    what = []
                    if missed:
                        what.append("(iii) %d occurrence(s) of %s `%s` missed by rename: %s" % (len(missed), x.kind, x.name, sorted(missed)[:4]))
                    if extra:
                        what.append("(iv) %d edit(s) touch text that is not an occurrence of the entity: %s" % (len(extra), sorted(extra)[:4]))
                    if site:
                        what.append("[finding site `%s`: %s — no open entry in known_findings.json]" % (site, FINDING_SITES[site]))
                    if site:
                        # a finding site without an open entry: list at most two of them so that they cannot crowd
                        # other violations out of the report
                        stats.setdefault("unlisted_site_violations", {})
                        n_ = stats["unlisted_site_violations"].get(site, 0)
                        stats["unlisted_site_violations"][site] = n_ + 1
                        if n_ >= 2:
                            continue
                    violation("; ".join(what), replay_obj(g, rq, {"edits": sorted(flat), "expected": sorted(expected), "site": site}))
                    continue
                key = tuple(sorted(flat))
                if key in seen_sets:
                    seen_sets[key]["requests"].append(rq)
                    continue
                case = {"g": g, "rq": rq, "ent": x, "edits_by_file": edits_by_file, "requests": [rq], "n": len(cases)}
                seen_sets[key] = case
                cases.append(case)
        stats["distinct_edit_sets"] += len(cases)

        # ---- apply the edits: extracted model and python; write the renamed projects
        a_lines = []
        a_refs = []
        after_root = os.path.join(d, "after")
        if os.path.isdir(after_root):
            shutil.rmtree(after_root)
        for c in cases:
            g = c["g"]
            x = c["ent"]
            c["new_texts"] = dict(g["texts"])
            for f, es in c["edits_by_file"].items():
                t = g["texts"][f]
                # arrival order of the answer (not sorted): the model sorts itself
                order = [(l0, c0, l1, c1, NEW_NAME) for (l0, c0, l1, c1) in es]
                c["new_texts"][f] = py_apply_edits(t, order)
                if not x.extended:
                    a_lines.append("A|%s|%s|%s|%s" % (" ".join(str(ord(ch)) for ch in t),
                                                      ";".join("%d,%d,%d,%d:%s" % (l0, c0, l1, c1, " ".join(str(ord(ch)) for ch in NEW_NAME))
                                                               for (l0, c0, l1, c1) in es),
                                                      " ".join(str(ord(ch)) for ch in x.name),
                                                      " ".join(str(ord(ch)) for ch in NEW_NAME)))
                    a_refs.append((c, f))
            c["dir"] = os.path.join(after_root, "r%d" % c["n"])
            write_project(c["dir"], c["new_texts"], g["libs"], g["open"])

        def run_model(lines):
            if not lines:
                return []
            inp = os.path.join(d, "model.in")
            with open(inp, "w") as fh:
                fh.write("\n".join(lines) + "\n")
            with open(inp) as fin:
                p = subprocess.run([mbin], stdin=fin, stdout=subprocess.PIPE)
            if p.returncode != 0:
                res.violation("extracted model runner failed", {"kind": "build"}, no_failing_input=True)
                return None
            return p.stdout.decode().split("\n")

        # ---- correspondence: rename.rs vs extracted Lsp/Rename.v
        out = run_model(model_lines)
        n_corr = 0
        if out is not None:
            for ref, line in zip(model_refs, out):
                g, rq = ref[1], ref[2]
                if "prepare" not in rq:
                    continue
                n_corr += 1
                if ref[0] == "P":
                    pr = rq["prepare"]
                    got = "-" if pr is None else ("ERR" if "error" in pr else "%d,%d,%d,%d" % (
                        pr["start"]["line"], pr["start"]["character"], pr["end"]["line"], pr["end"]["character"]))
                    if got != line.strip():
                        is_refusal = (not rq["rename"]) and got != "-"
                        violation("correspondence broken: prepareRename answered %s, the model of prepare_rename (fed with "
                                  "Project::item_at_cursor) answers %s" % (got, line.strip()),
                                  replay_obj(g, rq, {"kind": "correspondence",
                                                     "correspondence": "rename.rs prepare_rename vs RH.Lsp.Rename.prepare_rename"}),
                                  nf=not is_refusal)
                else:
                    fidx = ref[3]
                    raw = rq.get("rename_raw")
                    if isinstance(raw, dict) and "error" in raw:
                        continue
                    if raw is None:
                        got = "-"
                    else:
                        ch = parse_changes(raw)
                        got = sorted("%d:%s" % (fidx.get(p, -1), ";".join("%d,%d,%d,%d" % e[:4] for e in es)) for p, es in ch.items())
                    exp = "-" if line.strip() == "-" else sorted(x for x in line.strip().split("/") if x)
                    if got != exp:
                        violation("correspondence broken: rename answered %s, the model of rename.rs (fed with "
                                  "Project::find_all_references) answers %s" % (str(got)[:300], str(exp)[:300]),
                                  replay_obj(g, rq, {"kind": "correspondence",
                                                     "correspondence": "rename.rs rename vs RH.Lsp.Rename.rename"}), nf=True)
        stats["model_correspondence_cases"] = stats.get("model_correspondence_cases", 0) + n_corr

        # ---- edit application: extracted Edits.apply_edits == python, rename_edits_ok holds
        out = run_model(a_lines)
        if out is not None:
            for (c, f), line in zip(a_refs, out):
                parts = line.strip().split("|")
                if len(parts) != 4:
                    violation("extracted model gave no answer for an edit application", replay_obj(c["g"], c["rq"]), nf=True)
                    continue
                mtext = "".join(chr(int(v)) for v in parts[0].split())
                if mtext != c["new_texts"][f]:
                    violation("edit application differs: extracted Edits.apply_edits vs independent python implementation on %s" % f,
                              replay_obj(c["g"], c["rq"], {"kind": "correspondence", "correspondence": "Edits.apply_edits vs python"}),
                              nf=True)
                if parts[1] != "1" or parts[2] != "1":
                    violation("(iv) extracted checker rename_edits_ok rejects the edits of %s (ok=%s simul=%s): not pairwise disjoint "
                              "single identifier tokens of the old name" % (f, parts[1], parts[2]),
                              replay_obj(c["g"], c["rq"], {"edits": c["edits_by_file"]}))
        stats["apply_cases"] = stats.get("apply_cases", 0) + len(a_lines)
        if out is not None and a_lines and not cross_checked[0]:
            cross_checked[0] = True
            coq_cross_check(res, a_lines, out, stats)

        # ---- re-analysis of the renamed projects
        jobs = [{"dir": c["dir"], "files": [os.path.join(c["dir"], f) for f in c["g"]["order"]],
                 "open": [os.path.join(c["dir"], f) for f in c["g"]["open"]], "libs": libsdir, "full": False} for c in cases]
        after = run_snapshots(hbin, d, "after", jobs)
        for c, a in zip(cases, after):
            g = c["g"]
            x = c["ent"]
            b = g["base"]
            res.count_case("rename:%s:%s:%s" % (g.get("idx"), x.id, sorted(c["edits_by_file"].items())),
                           sum(len(v) for v in c["edits_by_file"].values()) >= 2)
            if len(res.samples) < 5 and c["n"] % 37 == 0:
                res.add_sample({"project": "seed %s idx %s family %s" % (g.get("seed"), g.get("idx"), g["family"]),
                                "entity": "%s %s" % (x.kind, x.name), "edits": {f: es for f, es in c["edits_by_file"].items()}})
            if "error" in a:
                violation("analysis of the renamed project failed: %s" % a["error"], replay_obj(g, c["rq"]))
                continue
            sh = Shifter({os.path.join(g["dir"], f): es for f, es in c["edits_by_file"].items()}, NEW_NAME)

            def rebase(path):
                return path.replace(c["dir"], g["dir"], 1) if path.startswith(c["dir"]) else path
            # (i) diagnostics
            old_l = x.name.lower()
            new_l = NEW_NAME.lower()
            bd = sorted((json.dumps(sh.loc(dd["loc"])), dd["code"], dd["message"].lower(),
                         json.dumps(sorted((json.dumps(sh.loc(r[0])), r[1].lower()) for r in dd["related"]))) for dd in b["diags"])
            ad = sorted((json.dumps([rebase(dd["loc"][0]), dd["loc"][1]]), dd["code"], dd["message"].lower().replace(new_l, old_l),
                         json.dumps(sorted((json.dumps([rebase(r[0][0]), r[0][1]]), r[1].lower().replace(new_l, old_l))
                                           for r in dd["related"]))) for dd in a["diags"])
            if any(dd["error"] for dd in a["diags"]):
                e0 = [dd for dd in a["diags"] if dd["error"]][0]
                violation("(i) the renamed project has error diagnostics, e.g. %s %s: %s" % (os.path.basename(e0["loc"][0]), e0["loc"][1], e0["message"]),
                          replay_obj(g, c["rq"], {"edits": c["edits_by_file"]}))
                continue
            if bd != ad:
                violation("(i) diagnostics differ beyond the substituted name: before %s after %s" % (
                    [z for z in bd if z not in ad][:2], [z for z in ad if z not in bd][:2]),
                    replay_obj(g, c["rq"], {"edits": c["edits_by_file"]}))
                continue
            # (ii) reference map
            def refset(snap, shift, rb):
                out_ = []
                for f, es in snap["refmap"].items():
                    for en in es:
                        rr = shift.rng(f, en["range"]) if shift else en["range"]
                        renamed = shift is not None and (f, *en["range"]) in shift.set
                        dp = shift.loc(en["decl_pos"]) if shift else (None if en["decl_pos"] is None else [rb(en["decl_pos"][0]), en["decl_pos"][1]])
                        ep = shift.loc(en["ent_pos"]) if shift else (None if en["ent_pos"] is None else [rb(en["ent_pos"][0]), en["ent_pos"][1]])
                        nm = en["name"].lower()
                        out_.append((rb(f), tuple(rr), "" if dp is None else (dp[0], tuple(dp[1])),
                                     "" if ep is None else (ep[0], tuple(ep[1])), en["dk"], new_l if renamed else nm))
                return sorted(out_)
            br = refset(b, sh, lambda p: p)
            ar = refset(a, None, rebase)
            if br != ar:
                violation("(ii) the reference map of the renamed project is not the renamed graph: only before %s only after %s" % (
                    [z for z in br if z not in ar][:2], [z for z in ar if z not in br][:2]),
                    replay_obj(g, c["rq"], {"edits": c["edits_by_file"]}))
                continue
            # (ii)/(iii) find_all_references of every declaration, keyed by declaration position
            def farmap(snap, shift, rb):
                pos_of = {}
                for f, es in snap["refmap"].items():
                    for en in es:
                        if en["decl_pos"] is not None:
                            pos_of[str(en["decl_ent"])] = en["decl_pos"]
                m = {}
                for k, v in snap["decls"].items():
                    dp = pos_of.get(k)
                    if dp is None:
                        continue
                    kk = shift.loc(dp) if shift else [rb(dp[0]), dp[1]]
                    key_ = (kk[0], tuple(kk[1]))
                    # several entities may share one declaration position (file mapped to two libraries)
                    if shift:
                        m.setdefault(key_, []).append(sorted((p[0], tuple(shift.rng(p[0], p[1]))) for p in v["far"]))
                    else:
                        m.setdefault(key_, []).append(sorted((rb(p[0]), tuple(p[1])) for p in v["far"]))
                for key_ in m:
                    m[key_].sort()
                return m
            bf = farmap(b, sh, lambda p: p)
            af = farmap(a, None, rebase)
            if bf != af:
                diff = [k for k in set(bf) | set(af) if bf.get(k) != af.get(k)][:2]
                violation("(iii) find_all_references of the renamed project differs for declaration(s) %s: before %s after %s" % (
                    diff, [bf.get(k) for k in diff], [af.get(k) for k in diff]),
                    replay_obj(g, c["rq"], {"edits": c["edits_by_file"]}))
                continue
        for g in projects:
            for site, (rq, missed) in g.get("known_examples", {}).items():
                agg.setdefault(site, (g, rq, missed))
            for k in ("base", "view", "reqs"):
                g.pop(k, None)
        if not res.violations:
            for p_ in (pdir_root, after_root):
                shutil.rmtree(p_, ignore_errors=True)

    bsize = 30
    for i in range(0, len(projects), bsize):
        run_batch(projects[i:i + bsize])

    # ---- known findings
    for site, (g, rq, missed) in sorted(agg.items()):
        entry = known[site]
        res.known_finding("%s site=%s cases=%d example: seed=%s idx=%s rename %s `%s` at %s:%d:%d misses %s" % (
            entry.get("id", "?"), site, stats["known_finding_cases"].get(site, 0), g.get("seed"), g.get("idx"),
            rq["ent"].kind, rq["ent"].name, rq["file"], rq["line"], rq["char"], missed[:3]))

    if not replay and stats["not_error_free"] > max(2, len(projects) // 10):
        res.violation("generator defect: %d of %d generated projects are not error-free" % (stats["not_error_free"], len(projects)),
                      {"kind": "harness", "examples": stats.get("not_error_free_examples")}, no_failing_input=True)

    res.coverage["exhaustive"] = False
    res.coverage["distribution"] = stats
    res.coverage["rule"] = (
        "generated projects (2-6 files, 1-2 libraries, 60-110 named entities each: signals/constants/variables, types/subtypes, "
        "overloaded functions with declaration+body, procedures, ports/generics with named association, components, "
        "entities/architectures/packages/configurations referenced across files, labels, record elements, overloaded enumeration "
        "literals, aliases, attributes, hidden and prefix-sharing names, mixed-case spellings, names inside comments and strings, "
        "UTF-16 columns behind supplementary-plane characters in files opened by the client); quick: 60 projects x (3 entities round-robin over kinds + samples of the cross-file, alias / by-item-use and finding-site entities) "
        "(round-robin over kinds) x every occurrence kind as cursor (declaration, body, end identifier, one reference per file), thorough: 150 projects x every entity likewise; a case is non-trivial when the "
        "rename produces at least two edits; distinct by project, entity and edit set")
    res.coverage["explanation"] = (
        "level=other: the THEOREM half covers the edit algebra (simultaneous replacement, order independence, bytes outside the "
        "ranges unchanged, token-level soundness of the run-time checker rename_edits_ok), the glue code rename.rs (one edit per "
        "reference, no de-duplication, prepare_rename refuses non-identifier designators) and alpha-renaming on a reference "
        "resolution semantics; that find_all_references of the real analyser returns exactly the occurrences of an entity and "
        "that re-analysis of the renamed project gives the same diagnostics and reference graph is EXPLORED on generated "
        "projects through the vhdl_ls binary (this run), not proved.")
    res.coverage["partial"] = True
    res.coverage["trusted_base"] = TRUSTED_BASE_COMMON + [
        "the generator's occurrence map (checks/c09gen.py) as the reference for 'occurrences of an entity'",
        "harness bin c09 (Project::analyse / find_all_entity_references / item_at_cursor / find_all_references through the public API) "
        "for the snapshots before and after; its diagnostics are compared with the server's publishDiagnostics on every project",
        "documents are Unicode scalar lists in the model; files not opened by the client are Latin-1 on disk (DESIGN.md 4.0)",
    ]
    res.assumptions = [
        "library names are excluded (property wording: non-library entity); the new name is a fresh basic identifier",
        "the formal parameters of a subprogram declaration and of its body are two entities (the implementation's entity model, "
        "coordinator decision): a rename of one side is only required to keep diagnostics and reference graph",
        "rename refused (null) for an identifier that item_at_cursor does not find is counted, not reported (C08's subject)",
    ]
    return res.finish()


def coq_cross_check(res, a_lines, out, stats, nsample=6):
    """re-evaluate a sample of the edit applications inside Coq (vm_compute) and compare with the extracted runner"""
    step = max(1, len(a_lines) // nsample)
    items = []
    for k in range(0, len(a_lines), step)[:nsample]:
        _, doc, edits, old, new = a_lines[k].split("|")
        parts = out[k].strip().split("|")
        if len(parts) != 4:
            continue

        def cl(t):
            return "[" + "; ".join(t.split()) + "]"
        es = []
        for e in edits.split(";"):
            ps, t = e.split(":")
            l0, c0, l1, c1 = ps.split(",")
            es.append("TE %s %s %s %s %s" % (l0, c0, l1, c1, cl(t)))
        items.append("(%s, [%s], %s, %s, %s, %s)" % (cl(doc), "; ".join(es), cl(old), cl(new), cl(parts[0]),
                                                   "true" if parts[1] == "1" else "false"))
    if not items:
        return
    pre = ("From Coq Require Import List NArith Bool.\nImport ListNotations.\n"
           "From RH Require Import Text.Contents Text.Splice Lsp.Edits.\nOpen Scope N_scope.\n"
           "Definition cases : list (list N * list text_edit * list N * list N * list N * bool) := [\n" + ";\n".join(items) + "].\n")
    body = ("forallb (fun c => match c with (d, es, old, new, exp, ok) => "
            "list_eqb (apply_edits d es) exp && Bool.eqb (rename_edits_ok d old new (map (to_offsets d) es)) ok end) cases")
    v, log = coq_eval_bool(PROP, "sample", pre, body)
    stats["in_coq_vm_compute_cases"] = len(items)
    if v is not True:
        res.violation("extracted model and in-Coq evaluation (vm_compute) disagree on the sampled edit applications",
                      {"kind": "correspondence", "correspondence": "extraction vs vm_compute (RH.Lsp.Edits.apply_edits)",
                       "log": log[-2000:]}, no_failing_input=True)


# ----------------------------------------------------------------------------------------------
# corpus: hand-written projects with inline occurrence markup  «role:id:spelling[:site]»
# ----------------------------------------------------------------------------------------------
def parse_markup(files):
    """files: {name: text with markup}; -> (texts, ents, marks)"""
    import re
    ents = {}
    texts = {}
    marks = []
    pat = re.compile(r"«([drempc]):([^:»]*):([^:»]*)(?::([^»]*))?»")
    for fname, src in files.items():
        out = []
        line = 0
        col = 0
        pos = 0

        def adv(s):
            nonlocal line, col
            if "\n" in s:
                line += s.count("\n")
                col = c09gen.len16(s[s.rfind("\n") + 1:])
            else:
                col += c09gen.len16(s)
        for m in pat.finditer(src):
            pre = src[pos:m.start()]
            out.append(pre)
            adv(pre)
            role, eid, sp, site = m.group(1), m.group(2), m.group(3), m.group(4) or ""
            if role in "dre":
                if eid not in ents:
                    ents[eid] = c09gen.Ent(len(ents), sp, "corpus", extended=sp.startswith("\\"))
                oc = c09gen.Occ(ents[eid], role, site)
                oc.file, oc.line, oc.c0, oc.c1, oc.text = fname, line, col, col + c09gen.len16(sp), sp
                ents[eid].occs.append(oc)
                if role == "d" and not any(o.role == "d" for o in ents[eid].occs[:-1]):
                    ents[eid].name = sp
            else:
                mk = c09gen.Mark({"m": "op_use", "p": "op_decl", "c": "char_use"}[role], sp)
                mk.file, mk.line, mk.c0, mk.c1 = fname, line, col, col + c09gen.len16(sp)
                marks.append(mk)
            out.append(sp)
            adv(sp)
            pos = m.end()
        out.append(src[pos:])
        texts[fname] = "".join(out)
    return texts, list(ents.values()), marks


def load_corpus():
    path = os.path.join(VERIF, "corpus", "C09.cases")
    out = []
    if not os.path.exists(path):
        return out
    for k, line in enumerate(open(path, encoding="utf-8")):
        line = line.strip()
        if not line or line.startswith("#"):
            continue
        c = json.loads(line)
        texts, ents, marks = parse_markup(c["files"])
        for x in ents:
            if c.get("finding_entity", {}).get(x.name):
                x.finding = c["finding_entity"][x.name]
        out.append({"texts": texts, "libs": c["libs"], "order": list(c["files"].keys()), "ents": ents, "marks": marks,
                    "open": c.get("open", []), "family": "corpus:" + c.get("name", str(k)), "seed": "corpus", "idx": k})
    return out
