"""C07 — Names and overloaded calls resolve as the VHDL visibility rules dictate.

Per generated program of the scoped/overloaded family and per use site three answers are compared:
  spec   Scope.denotes + Scope.resolve (extracted Coq specification)                         [oracle]
  model  ScopeImpl/Overload (extracted Coq model of scope.rs / region.rs / visibility.rs /
         overloaded.rs driven by the elaborator)                                             [correspondence]
  impl   Project::analyse + Project::find_declaration at the cursor of the use site; error
         diagnostics on the line of the site (ConflictingUseClause / Unresolved "No declaration of" / other)
"""
import json
import os
import re
from vlib.common import *

PROP = "C07"
KF_CHAR = "char_literal_no_lookup"


def parse_case(line):
    """-> dict: units, sites {sid: (des, usage)}, canon {body id: declaration id}"""
    units = line.split("|")
    sites = {}
    for m in re.finditer(r"(?:^|[ ,])S(\d+):(\d+):([vctx][^ ,|]*)", line):
        sites[m.group(1)] = (int(m.group(2)), m.group(3))
        mx = re.match(r"x[nc](\d+)\.(\d+)", m.group(3))
        if mx:
            # the actual of the call is a use site of its own (same line)
            sites[mx.group(1)] = (int(mx.group(2)), "xi")
    canon = {}
    for m in re.finditer(r"F(\d+):\d+:[^ ~@]*@(\d+)~", line):
        canon[m.group(1)] = m.group(2)
    return {"units": len(units), "sites": sites, "canon": canon}


def is_char_site(des, usage):
    return 30 <= des < 40 and usage.startswith("v")


# ---------------------------------------------------------------------------------------------
# Coq terms for the in-Coq cross-check
# ---------------------------------------------------------------------------------------------
def coq_ty(s):
    return "(%s %s)" % ("TInt" if s[0] == "i" else "TOth", s[1:])


def coq_ent(s):
    f = s.split(":")
    k = f[2]
    declby = "None"
    if "@" in k:
        k, b = k.split("@")
        declby = "(Some %s)" % b
    if k[0] == "O":
        kind = "(KObj %s)" % coq_ty(k[1:])
    elif k[0] == "L":
        kind = "(KLit %s)" % coq_ty(k[1:])
    elif k[0] == "F":
        p, r = k[1:].split("/")
        kind = "(KFunc %s %s)" % (coq_ty(p), coq_ty(r))
    else:
        parts = k[1:].split("/")
        lits = "; ".join("(%s, %s)" % tuple(x.split(".")) for x in parts[1:])
        kind = "(KType %s [%s])" % (coq_ty(parts[0]), lits)
    return "(mkEnt %s %s %s %s)" % (f[0], f[1], kind, declby)


def coq_item(s):
    c, b = s[0], s[1:]
    if c == "D":
        return "IDecl %s" % coq_ent(b)
    if c == "A":
        return "IUseAll %s" % b
    if c == "N":
        p, d = b.split(":")
        return "IUseName %s %s" % (p, d)
    if c == "K":
        return "IUseCtx %s" % b
    if c == "S":
        i, d, u = b.split(":")
        if u[0] == "v":
            us = "(UVal %s)" % coq_ty(u[1:])
        elif u[0] == "t":
            us = "UType"
        elif u[0] == "x":
            x, t = u[2:].split("/")
            g = x.split(".")
            if u[1] == "n":
                us = "(UCallX (XName %s %s) %s)" % (g[0], g[1], coq_ty(t))
            else:
                us = "(UCallX (XCall %s %s %s) %s)" % (g[0], g[1], "AUniv" if g[2] == "u" else "(ATy %s)" % coq_ty(g[2]), coq_ty(t))
        else:
            a, t = u[1:].split("/")
            us = "(UCall %s %s)" % ("AUniv" if a == "u" else "(ATy %s)" % coq_ty(a), coq_ty(t))
        return "ISite (mkSite %s %s %s)" % (i, d, us)
    if c == "O":
        return "IOpen"
    if c == "C":
        return "IClose"
    if c == "F":
        f, p = b.split("~")
        return "IOpenFun %s %s" % (coq_ent(f), coq_ent(p))
    raise ValueError(s)


def coq_program(line):
    us = []
    for u in line.split("|"):
        f = u.split(",")
        kd = "UPrimary" if f[1] in ("P", "E", "C") else "(USecondary %s)" % f[1][1:]
        ctx = "; ".join(coq_item(x) for x in f[2].split(" ") if x)
        body = "; ".join(coq_item(x) for x in f[3].split(" ") if x)
        us.append("mkUnit %s %s [%s] [%s]" % (f[0], kd, ctx, body))
    return "[" + ";\n ".join(us) + "]"


def coq_expected(model_line):
    """expected (sid, spec answer, cached target/class) list as a Coq term"""
    head, sites = model_line.split(";", 1)
    items = []
    for s in sites.split():
        sid, spec, nd, nv, ct, cc, ut, uc = s.split(":")[:8]
        ans = {"C": "AConflict", "U": "AUndeclared", "E": "AError"}.get(spec[0]) if spec[0] != "D" else "(ADecl %s)" % spec[1:]
        tgt = "None" if ct == "-" else "(Some %s)" % ct
        cls = {"OK": "MOk", "CONFLICT": "MConflict", "UNDECL": "MUndeclared", "ERROR": "MError"}[cc]
        items.append("(%s, %s, %s, %s)" % (sid, ans, tgt, cls))
    return "[" + "; ".join(items) + "]"


COQ_PRE = """From Coq Require Import List NArith Bool.
Import ListNotations.
From RH Require Import Mini.Scope Mini.Overload Mini.ScopeImpl.
Open Scope N_scope.
Definition ans_eqb (a b : answer) : bool :=
  match a, b with
  | ADecl x, ADecl y => x =? y | AConflict, AConflict => true
  | AUndeclared, AUndeclared => true | AError, AError => true | _, _ => false end.
Definition cls_eqb (a b : mclass) : bool :=
  match a, b with MOk, MOk => true | MConflict, MConflict => true
  | MUndeclared, MUndeclared => true | MError, MError => true | _, _ => false end.
Definition ot_eqb (a b : option N) : bool :=
  match a, b with Some x, Some y => x =? y | None, None => true | _, _ => false end.
Fixpoint find_spec (l : list (N * answer)) (i : N) : option answer :=
  match l with [] => None | (k, a) :: r => if k =? i then Some a else find_spec r i end.
Fixpoint find_model (l : list site_out) (i : N) : option mres :=
  match l with [] => None | o :: r => if o_sid o =? i then Some (o_cached o) else find_model r i end.
Definition check_one (c : program * list (N * answer * option N * mclass)) : bool :=
  let '(p, exp) := c in
  let sp := spec_program p in
  match model_program cfg_now p with
  | None => false
  | Some m =>
      disciplined_b [] (m_trace m) &&
      forallb (fun e => match e with (i, a, t, cl) =>
        match find_spec sp i, find_model (m_sites m) i with
        | Some a', Some r => ans_eqb a a' && ot_eqb t (mtarget r) && cls_eqb cl (mclass_of r)
        | _, _ => false end end) exp
  end.
"""


def coq_cross_check(res, sampled):
    if not sampled:
        return
    items = ["(%s,\n %s)" % (coq_program(c), coq_expected(m)) for c, m in sampled]
    pre = COQ_PRE + "Definition cases : list (program * list (N * answer * option N * mclass)) := [\n" + ";\n".join(items) + "].\n"
    v, log = coq_eval_bool(PROP, "sample", pre, "forallb check_one cases")
    res.coverage["in_coq_vm_compute_cases"] = len(items)
    if v is not True:
        res.violation("extracted runner and in-Coq evaluation (vm_compute) of Scope.spec_program / ScopeImpl.model_program "
                      "disagree on the sampled programs",
                      {"kind": "correspondence", "correspondence": "extraction vs vm_compute", "log": log[-2000:]},
                      no_failing_input=True)


# ---------------------------------------------------------------------------------------------
class Cmp:
    def __init__(self, res, hbin, workdir):
        self.res = res
        self.hbin = hbin
        self.workdir = workdir
        self.nviol = 0
        self.kf_char = 0
        self.kf_char_example = None
        self.stats = {}
        self.open_mech = {e.get("match", {}).get("mechanism"): e for e in known_findings(PROP) if e.get("kind") == "open"}

    def bump(self, k, n=1):
        self.stats[k] = self.stats.get(k, 0) + n

    def vhdl(self, case):
        path = os.path.join(self.workdir, "render.in")
        open(path, "w").write(case + "\n")
        rc, out = run([self.hbin, "file:" + path, "0", "0", os.path.join(self.workdir, "render"), "x", "x", "render"], timeout=120)
        return out[-6000:] if rc == 0 else "(render failed)"

    def report(self, what, case, site, extra, no_input=False):
        self.nviol += 1
        if self.nviol <= 8:
            obj = {"kind": "correspondence" if no_input else "input", "case": case, "site": site,
                   "vhdl": self.vhdl(case), "replay_cmd": "./check C07 --replay <this file>"}
            obj.update(extra)
            if no_input:
                obj["correspondence"] = "scope.rs/region.rs/visibility.rs/overloaded.rs vs RH.Mini.ScopeImpl / RH.Mini.Overload"
            self.res.violation(what, obj, no_failing_input=no_input)

    def compare(self, tag, cases, impl, model, sample_every):
        res = self.res
        sampled = []
        n = 0
        with open(cases) as fc, open(impl) as fi, open(model) as fm:
            for c, i, m in zip(fc, fi, fm):
                n += 1
                c, i, m = c.rstrip("\n"), i.rstrip("\n"), m.rstrip("\n")
                if m.startswith("BADCASE") or ";" not in m:
                    self.report("model runner rejected the case: " + m[:200], c, None, {}, no_input=True)
                    continue
                head, msites = m.split(";", 1)
                if "fam=0" in head:
                    # outside the family (duplicate declarations or the excluded equal-profile corner): never compared
                    self.bump("outside_family")
                    res.count_case(c, False)
                    continue
                pc = parse_case(c)
                for tok, name in (("Oc", "case_generates"), ("Ow", "case_generate_further_alternatives"), ("Oi", "if_generates"),
                                  ("Oe", "if_generate_elsif_branches"), ("Ol", "if_generate_else_branches"), ("Of", "for_generates"),
                                  (",C,", "context_declarations")):
                    k = c.count(" " + tok + " ") + c.count("," + tok + " ") if tok[0] == "O" else c.count(tok)
                    if k:
                        self.bump(name, k)
                k = len(re.findall(r"(?:^|[ ,])K\d+", c))
                if k:
                    self.bump("context_references", k)
                isites, _, extra = i.partition(";")
                if "PANIC" in extra:
                    self.report("analysis panicked on a program of the family", c, None, {"impl": i})
                    continue
                if "disc=1" not in head:
                    self.report("the scope-operation trace of the elaborator leaves the analysis discipline (or the elaborator "
                                "got stuck): C07_cache_coherent does not apply to this program", c, None, {"model": head}, no_input=True)
                im = {}
                for s in isites.split():
                    f = s.split(":")
                    im[f[0]] = (f[1], f[2], f[3])
                nontrivial = False
                for s in msites.split():
                    sid, spec, nd, nv, ct, cc, ut, uc = s.split(":")[:8]
                    stage = s.split(":")[8] if s.count(":") >= 8 else None
                    des, usage = pc["sites"].get(sid, (0, "?"))
                    it, ic, codes = im.get(sid, ("?", "?", "?"))
                    ct = pc["canon"].get(ct, ct)
                    if ct != "-" and int(ct) >= 900:
                        ct = "EXT"
                    self.bump("sites")
                    self.bump("spec_" + ("resolved" if spec[0] == "D" else spec.lower()))
                    xline = usage[0] == "x"
                    kind = "char" if is_char_site(des, usage) else ("operator" if 20 <= des < 30 else
                                                                     {"v": "value", "c": "call", "t": "typemark",
                                                                      "x": "call_with_site_actual" if usage != "xi" else "actual"}.get(usage[0], "?"))
                    self.bump("kind_" + kind)
                    nd, nv = int(nd), int(nv)
                    if spec[0] == "D":
                        if nd >= 1 and nv >= 1:
                            self.bump("resolved_direct_over_use_visible")
                        if nd == 0 and nv >= 1:
                            self.bump("resolved_use_visible")
                        if nd + nv >= 2:
                            self.bump("resolved_among_several")
                        if nv >= 1 or nd >= 2:
                            nontrivial = True
                    ut = pc["canon"].get(ut, ut)
                    if ut != "-" and int(ut) >= 900:
                        ut = "EXT"
                    if (ct, cc) != (ut, uc):
                        # cannot happen on a disciplined trace (C07_cache_coherent)
                        self.bump("cache_matters")
                        self.report("model: cached lookup differs from lookup_uncached at site %s although the trace is "
                                    "disciplined" % sid, c, None, {"model": s}, no_input=True)
                    # the theorems say: model (uncached) == specification on the family, character-literal sites excepted
                    if xline:
                        uspec_ok = (ut == spec[1:] and uc == "OK") if spec[0] == "D" else (uc != "OK")
                    else:
                        uspec_ok = (ut == spec[1:] and uc == "OK") if spec[0] == "D" else (uc == {"CONFLICT": "CONFLICT", "UNDECL": "UNDECL", "ERROR": "ERROR"}[spec])
                    if not uspec_ok and not is_char_site(des, usage):
                        self.bump("model_vs_spec")
                        self.report("Coq model and Coq specification disagree at site %s (C07_resolution_refines_spec excludes this "
                                    "inside the family: the family predicate or the elaborator glue is wrong)" % sid,
                                    c, None, {"model": s}, no_input=True)
                    if xline:
                        # a call and its actual share the line: the complete context resolves as a whole or the line is in
                        # error; the error class and the references left behind on an erroneous line are not compared
                        spec_ok = (it == spec[1:] and ic == "OK") if spec[0] == "D" else (ic != "OK")
                        model_ok = (it == ct and ic == "OK") if cc == "OK" else (ic != "OK")
                        if spec[0] == "D" and usage == "xi":
                            self.bump("actual_resolved")
                            self.bump("actual_resolved_selecting_stage_" + {"g0": "only_candidate", "g1": "formals", "g2": "actual_types",
                                                                           "g3": "return_type"}.get(stage, "none"))
                            if nd + nv >= 2:
                                self.bump("actual_resolved_among_several")
                    else:
                        spec_ok = (it == spec[1:] and ic == "OK") if spec[0] == "D" else (ic == {"CONFLICT": "CONFLICT", "UNDECL": "UNDECL", "ERROR": "ERROR"}[spec])
                        model_ok = (it == ct and ic == cc)
                    site = {"sid": sid, "designator": des, "usage": usage, "spec": spec, "model": "%s:%s" % (ct, cc),
                            "impl": "%s:%s:%s" % (it, ic, codes), "direct": nd, "use_visible": nv}
                    if spec_ok and model_ok:
                        continue
                    if not spec_ok:
                        if is_char_site(des, usage) and model_ok and KF_CHAR in self.open_mech:
                            self.kf_char += 1
                            if self.kf_char_example is None:
                                self.kf_char_example = (c, site)
                            continue
                        self.report("use site %s (designator %s, %s): go-to-declaration / diagnostics of the implementation "
                                    "(%s) differ from the reference resolver Scope.denotes (%s)" % (sid, des, usage, site["impl"], spec),
                                    c, site, {"impl_line": i})
                    else:
                        self.report("correspondence broken at use site %s: implementation (%s) differs from the Coq model of "
                                    "scope.rs/overloaded.rs (%s) although it agrees with the specification" % (sid, site["impl"], site["model"]),
                                    c, site, {"impl_line": i}, no_input=True)
                if extra.strip():
                    self.report("error diagnostics outside every use site (the reference resolver predicts none): " + extra.strip()[:300],
                                c, None, {"impl_line": i})
                res.count_case(c, nontrivial and pc["units"] >= 2)
                if n % 97 == 1:
                    res.add_sample({"case": c[:1500], "impl": isites[:600]})
                if sample_every and n % sample_every == 0 and len(c) < 4000:
                    sampled.append((c, m))
        res.coverage.setdefault("streams", {})[tag] = n
        return sampled


def compare_templates(cmp, res, cases, impl):
    """template stream (generics with type/subprogram generics, aliases with implicit aliases): go-to-declaration
    against the hand-computed expectations of the template; no Coq model behind it"""
    n = 0
    with open(cases) as fc, open(impl) as fi:
        for c, i in zip(fc, fi):
            n += 1
            case, _, vhdl = c.rstrip("\n").partition("\t")
            vhdl = vhdl.replace("\\n", "\n")
            sites, _, extra = i.rstrip("\n").partition(";")
            kind = case.split()[0]
            nontrivial = False
            if "PANIC" in extra:
                cmp.nviol += 1
                res.violation("analysis panicked on a template instance", {"kind": "input", "template": case, "vhdl": vhdl[:6000]})
                continue
            for s in sites.split("|"):
                if not s:
                    continue
                label, exp, got, cls = s.split("~")
                cmp.bump("template_sites_" + kind)
                if exp == "ERR":
                    ok = cls != "OK"
                    cmp.bump("template_sites_expected_error")
                else:
                    ok = got in exp.split("/") and cls == "OK"
                    nontrivial = True
                if not ok:
                    cmp.nviol += 1
                    if cmp.nviol <= 8:
                        res.violation("template %s, site `%s`: go-to-declaration / diagnostics of the implementation (%s, %s) differ from the "
                                      "hand-computed expectation (%s)" % (case, label, got, cls, "an error on the line" if exp == "ERR" else "declaration at " + exp),
                                      {"kind": "input", "template": case, "site": label, "expected": exp, "got": got, "diagnostics": cls,
                                       "vhdl": vhdl[:6000], "replay_cmd": "./check C07 --replay <this file>"})
            if extra.strip():
                cmp.nviol += 1
                if cmp.nviol <= 8:
                    res.violation("template %s: error diagnostics on lines where none is expected: %s" % (case, extra.strip()[:300]),
                                  {"kind": "input", "template": case, "vhdl": vhdl[:6000]})
            res.count_case("template " + case + vhdl, nontrivial)
            if n % 61 == 1:
                res.add_sample({"template": case, "vhdl": vhdl[:1200]})
    res.coverage.setdefault("streams", {})["templates"] = n


def main(tier, replay=None):
    res = Result(PROP, tier, level="proof")
    d = rundir(PROP)
    proof_stage(res, PROP, thorough=(tier == "thorough"))
    ok, log, hbin = harness_build("c07")
    if not ok:
        res.violation("harness build failed against the current /repo tree", {"kind": "build", "log": log[-3000:]},
                      no_failing_input=True)
        return res.finish()
    ok, log, mbin = ocaml_build("c07_run")
    if not ok:
        res.violation("extracted model build failed", {"kind": "build", "log": log[-3000:]}, no_failing_input=True)
        return res.finish()
    cmp = Cmp(res, hbin, d)

    def stream(tag, mode, n, sample_every):
        cases, impl, model = (os.path.join(d, "%s.%s" % (tag, x)) for x in ("cases", "impl", "model"))
        work = os.path.join(d, "work_" + tag)
        run(["rm", "-rf", work])
        rc, out = run([hbin, mode, str(seed()), str(n), work, cases, impl], timeout=3000)
        if rc != 0:
            res.violation("harness c07 failed in mode %s" % mode, {"kind": "harness", "log": out[-2000:]}, no_failing_input=True)
            return []
        with open(cases) as fin, open(model, "w") as fout:
            p = subprocess.run([mbin], stdin=fin, stdout=fout)
        if p.returncode != 0:
            res.violation("extracted model runner failed", {"kind": "build"}, no_failing_input=True)
            return []
        r = cmp.compare(tag, cases, impl, model, sample_every)
        run(["rm", "-rf", work])
        return r

    def template_stream(mode, sd, n):
        cases, impl = (os.path.join(d, "templates.%s" % x) for x in ("cases", "impl"))
        work = os.path.join(d, "work_templates")
        rc, out = run([hbin, mode, str(sd), str(n), work, cases, impl], timeout=3000)
        if rc != 0:
            res.violation("harness c07 failed in mode %s" % mode, {"kind": "harness", "log": out[-2000:]}, no_failing_input=True)
            return
        compare_templates(cmp, res, cases, impl)
        run(["rm", "-rf", work])

    sampled = []
    if replay and "template" in json.load(open(replay)):
        rp = json.load(open(replay))
        kind, sd, idx = rp["template"].split()
        template_stream("template:" + idx, int(sd), 1)
    elif replay:
        rp = json.load(open(replay))
        path = os.path.join(d, "replay.in")
        open(path, "w").write(rp["case"] + "\n")
        sampled += stream("replay", "file:" + path, 0, 1)
    else:
        corpus = os.path.join(VERIF, "corpus", "C07.cases")
        if os.path.exists(corpus) and not os.environ.get("C07_NO_CORPUS"):  # (the variable is a debugging aid only)
            sampled += stream("corpus", "file:" + corpus, 0, 1)
        if tier == "thorough":
            sampled += stream("random", "random", 16000, 800)
            sampled += stream("deep", "deep", 4000, 800)
            template_stream("templates", seed(), 4000)
        else:
            sampled += stream("random", "random", 400, 40)
            sampled += stream("deep", "deep", 100, 50)
            template_stream("templates", seed(), 160)
    coq_cross_check(res, sampled[:40])
    if cmp.kf_char:
        c, site = cmp.kf_char_example
        res.known_finding("F23 mechanism=%s: %d character-literal use sites where the implementation (== faithful model: no scope "
                          "lookup, no reference) differs from the reference resolver; e.g. site %s spec=%s impl=%s in case %s"
                          % (KF_CHAR, cmp.kf_char, site["sid"], site["spec"], site["impl"], c[:300]))
    res.coverage["exhaustive"] = False
    res.coverage["site_statistics"] = cmp.stats
    res.coverage["known_finding_sites"] = {KF_CHAR: cmp.kf_char}
    res.coverage["rule"] = (
        "corpus of hand-written cases first (F21/F22 inputs, 3-deep nesting, homograph pair, overloaded literals over two "
        "enumeration types); then generated programs: 2-4 packages (+ bodies) in 1-3 libraries, 1-2 entity/architecture pairs, "
        "0-2 context declarations (library/use clauses, possibly a nested context reference) referenced with `context l.c;` at "
        "every position among the by-name and .all use clauses of later units (often next to a by-name use clause of a designator "
        "the context also brings); regions nested package / package body / entity / architecture / block / process / subprogram / "
        "if-generate branches (if, elsif, else) / case-generate alternatives / for generate (its parameter is a declaration) - "
        "sibling regions declare homographs of outer names and of each other (quick <= 4 deep, "
        "'deep' stream <= 6), declarations = constants and parameters (non-overloadable), one-parameter functions and unary "
        "operators \"-\" \"+\" (overloadable), enumeration literals incl. character literals, enumeration and integer types; "
        "identifiers drawn from 4 value names and 3 type names so that homographs are frequent; use clauses `use l.p.all` / "
        "`use l.p.name` in context clauses and declarative parts; use sites: name as value, call with a universal or typed actual, "
        "unary operator, type mark, character literal, recursive call, call whose actual is itself a use site (overloaded "
        "literal / constant name or nested overloaded call; functions are frequently overloaded by result type only so that "
        "each stage of `disambiguate` - only candidate, formals, actual types, return type - is the selecting one); 70% of the "
        "sites are biased towards a probably visible "
        "declaration. Shape restrictions of the generator: types are declared in packages only and type marks in declarations "
        "are selected names (so only the use-site name is looked up on a line), operator functions take BOOLEAN or enumeration "
        "operands (no predefined operator competes), a package refers to types of earlier packages only. Excluded from the "
        "generator (never special-cased in the comparison; the runner's `fam` flag rejects such programs): two subprograms with "
        "EQUAL profiles in two packages. non-trivial = program has >= 2 design units and a resolved site whose name is use-visible or has >= 2 "
        "visible declarations; distinct by hash of the abstract program")
    res.coverage["template_stream"] = (
        "NOT covered by the Coq specification/model: (a) generic packages and generic functions with a TYPE generic and SUBPROGRAM "
        "generics whose profile mentions it, instantiated (named / positional generic maps, package and function instantiations) with "
        "actuals that are overloaded names (2-4 overloads differing in the result type only, some directly declared, some use-visible, "
        "a decoy differing in the parameter type, sometimes no matching overload); use sites = the actual designators and the formal "
        "designators; (b) aliases: type aliases of integer / array / record / enumeration types of another package used through "
        "the alias only (predefined operators, to_string, literals), object aliases, subprogram aliases with signature, with "
        "use-visible explicit homographs of the implicitly aliased operators (\"+\", \"&\", \"/=\", \"<\", double). Each randomised "
        "instance carries HAND-COMPUTED expectations (acceptable go-to-declaration targets, or 'an error on this line'), derived "
        "from LRM 6.5.6.3 / 6.6.3 by the template code in harness/src/bin/c07.rs; the implementation is judged against them "
        "directly. Physical-type aliases are left out (the implementation does not alias the units: reported), as is the omitted "
        "actual of an interface subprogram with default `is <>` (reported as 'No association', also reported)")
    res.coverage["trusted_base"] = TRUSTED_BASE_COMMON + [
        "the renderer of abstract programs to VHDL and the map from declaration positions to ids (harness/src/bin/c07.rs)",
        "entities outside the family's designator set (library/unit names, labels, implicit operators of types, `true`, `integer`) "
        "and their scope operations are not modelled: they are no homographs of family names",
        "function bodies that complete a package declaration are the same declaration for the comparison (find_declaration maps a body "
        "to its declaration)",
        "proved: cache coherence on every trace of the elaborator, lookup_uncached == denotes at every point of the family, staged "
        "disambiguation == unique fitting candidate. NOT proved, tested instead on every generated program (model vs spec at every "
        "site, plus a vm_compute sample inside Coq): that the frames the elaborator has built at a site are `point_scope` of the "
        "chain the reference scan has built there (the two scans walk the same flat item list in lockstep)",
        "calls whose actual is itself a use site (overloaded literal / nested overloaded call): Scope.resolve_x (unique interpretation "
        "of the complete context) vs Overload.site_result_x (staged disambiguate with the actual's ExpressionType; the actual's "
        "reference comes from the check_call of the selecting stage) is TESTED at every such site, not proved; on an erroneous line "
        "of that kind only the presence of an error is compared, not its class nor the references left behind",
    ]
    res.coverage["partial"] = False
    res.assumptions = [
        "LRM 12.3/12.4 reading of Scope.denotes (VHDL-2019: a use clause naming a type also makes its literals visible)",
        "programs with two potentially visible subprograms of equal profile from different packages are outside the family",
        "character-literal expression sites: open finding F23 (implementation performs no lookup)",
        "reading of 'directly visible declarations hide use-visible ones': a use-visible overloadable is hidden only by declarations that "
        "are themselves directly visible at the point (an outer non-overloadable homograph that is hidden by an inner overloadable one "
        "does not block it); this is the validated round-0 reading and what the implementation does; LRM 12.4 a) read literally "
        "('within the immediate scope of a homograph') would also block it",
    ]
    return res.finish()
