"""C06 exploration-only stream: hand-written template programs with ONE planted fault at a known token.

The MiniVHDL reference (coq/Mini) has no exit/next, wait, assert/report, signal assignment delays, generate statements,
protected types ...; this stream exercises the fault catalogue on those constructs.  It is OUTSIDE the theorems: the
templates are valid by inspection (the unplanted program is analysed too and must be free of errors) and the expected
diagnostic of a plant is fixed by the kind of the plant:
  base_misuse a type mark T is replaced by T'base (not the prefix of an attribute) -> IllegalAttribute on the T'base span
  undeclared  an expression position is replaced by the name `undeclared_0`       -> Unresolved covering the token
  wrong_type  ... by a literal / object of a type the position cannot have      -> TypeMismatch (conditions: also
                                                                                    NoImplicitConversion) covering it
  duplicate   a declaration / body / full type / component ... is written twice  -> Duplicate at the second name
Every expression position of every sequential / concurrent statement form of the template is a site, including the
optional parts (exit/next label x condition, wait on/until/for, assert/report/severity, after/reject, loop bounds,
case expression and choices, if/elsif conditions, call actuals positional / named / individual).
"""
import random

# ----------------------------------------------------------------------------------------------
# expression sites
# ----------------------------------------------------------------------------------------------
# kinds of positions: what a wrong-typed replacement looks like
WRONG = {"bool": "42", "int": "true", "time": "true", "bit": "42", "str": "42", "sev": "42", "rec": "42", "enum": "42"}
WRONG_CODES = {"bool": {"TypeMismatch", "NoImplicitConversion"}, "resfn": {"TypeMismatch", "MismatchedKinds"}}

PKG = """package tp{k} is
  type color_t is (red, green, blue);
  type pair_t is record
    first : integer;
    second : integer;
  end record;
  type bpair_t is record
    first : bit;
    second : bit;
  end record;
  type nib_t is array (0 to 3) of bit;
  constant limit_c : integer := 7;
  constant flag_c : boolean := true;
  function weight (p : pair_t) return integer;
  function weight (p : bpair_t) return integer;
  procedure load (variable p : out pair_t; n : in integer);
  procedure load (variable p : out bpair_t; n : in integer);
  procedure note (n : in integer; msg : in string := "x");
end package;
package body tp{k} is
  function weight (p : pair_t) return integer is
  begin
    return p.first + p.second;
  end function;
  function weight (p : bpair_t) return integer is
  begin
    return 2;
  end function;
  procedure load (variable p : out pair_t; n : in integer) is
  begin
    p := (n, n);
  end procedure;
  procedure load (variable p : out bpair_t; n : in integer) is
  begin
    p := ('0', '1');
  end procedure;
  procedure note (n : in integer; msg : in string := "x") is
  begin
    report msg severity note;
  end procedure;
end package body;
"""

# the user unit: lines with sites written  <<kind|valid expression>>
USER = """library {lib};
use {lib}.tp{k}.all;
entity te{k} is
  port (clk : in bit; d : in integer; q : out integer; en : in boolean);
end entity;
architecture a of te{k} is
  signal s1 : integer := <<int|0>>;
  signal s2 : integer;
  signal b1 : bit;
  signal c1 : color_t := <<enum|red>>;
  constant k1 : integer := <<int|limit_c>> + 1;
begin
  main : process
    variable v : integer := <<int|1>>;
    variable w : integer;
    variable pv : pair_t;
    variable ok : boolean;
  begin
    outer : for i in <<int|0>> to <<int|limit_c>> loop
      inner : while <<bool|v < 10>> loop
        v := v + <<int|1>>;
        next inner when <<bool|v = 3>>;
        exit outer when <<bool|v > w>>;
        exit inner when <<bool|ok>>;
        next outer when <<bool|flag_c>>;
        exit when <<bool|v = 5>>;
        next when <<bool|en>>;
      end loop;
    end loop;
    if <<bool|v = 0>> then
      w := <<int|d>>;
    elsif <<bool|ok>> then
      w := <<int|k1>> * 2;
    else
      w := 0;
    end if;
    case <<enum|c1>> is
      when red => w := <<int|1>>;
      when green | blue => w := 2;
    end case;
    case <<int|v>> is
      when 0 => ok := <<bool|true>>;
      when others => ok := <<bool|v < w>>;
    end case;
    assert <<bool|ok>> report <<str|"not ok">> severity <<sev|warning>>;
    report <<str|"hello">> severity <<sev|note>>;
    load(pv, <<int|v>>);
    load(p => pv, n => <<int|w>>);
    note(<<int|v>>);
    note(n => <<int|3>>, msg => <<str|"m">>);
    w := weight(p.first => <<int|v>>, p.second => <<int|4>>);
    w := weight(<<rec|pv>>);
    s1 <= <<int|v>> after <<time|1 ns>>;
    s2 <= reject <<time|1 ns>> inertial <<int|w>> after <<time|2 ns>>;
    wait on clk until <<bool|clk = '1'>> for <<time|10 ns>>;
    wait until <<bool|en>>;
    wait for <<time|5 ns>>;
  end process;
  q <= <<int|s1>> when <<bool|en>> else <<int|s2>>;
  with <<enum|c1>> select b1 <= <<bit|'0'>> when red, <<bit|'1'>> when others;
  chk : assert <<bool|s1 < 100>> report <<str|"big">> severity <<sev|error>>;
  gen_i : if <<bool|flag_c>> generate
    s2 <= <<int|d>>;
  end generate;
  gen_f : for j in <<int|0>> to <<int|3>> generate
    lbl : assert <<bool|j < 4>>;
  end generate;
end architecture;
"""


# subtype indications / constraints in every carrier (index constraints, element constraints after `(open)`, record element
# constraints, range constraints, resolution indications; subtype / object / interface / element / access / allocator /
# alias declarations)
PKG2 = """package sp{k} is
  type vec_t is array (natural range <>) of bit;
  type mat_t is array (natural range <>) of vec_t;
  type cube_t is array (natural range <>) of mat_t;
  type rec_t is record
    data : vec_t;
    n : integer;
  end record;
  type rec_arr_t is array (natural range <>) of rec_t;
  type vec_ptr_t is access vec_t;
  constant lo_c : integer := 0;
  constant hi_c : integer := 7;
  function resolve_bit (v : vec_t) return bit;
end package;
package body sp{k} is
  function resolve_bit (v : vec_t) return bit is
  begin
    return '0';
  end function;
end package body;
"""
USER2 = """library {lib};
use {lib}.sp{k}.all;
entity se{k} is
  port (p1 : in vec_t(<<int|0>> to <<int|3>>); p2 : in mat_t(open)(<<int|0>> to <<int|1>>); p3 : in integer range <<int|0>> to <<int|hi_c>>);
end entity;
architecture a of se{k} is
  subtype a1_t is vec_t(<<int|0>> to <<int|7>>);
  subtype a2_t is mat_t(<<int|0>> to <<int|1>>)(<<int|lo_c>> to <<int|hi_c>>);
  subtype a3_t is mat_t(open)(<<int|0>> to <<int|3>>);
  subtype a4_t is cube_t(<<int|0>> to 1)(open)(<<int|0>> to <<int|hi_c>>);
  subtype a5_t is rec_t(data(<<int|0>> to <<int|3>>));
  subtype a6_t is rec_arr_t(open)(data(<<int|1>> to <<int|hi_c>>));
  subtype r1_t is integer range <<int|0>> to <<int|hi_c>>;
  subtype rs_t is <<resfn|resolve_bit>> bit;
  signal s1 : vec_t(<<int|0>> to <<int|3>>);
  signal s2 : mat_t(open)(<<int|0>> to <<int|3>>);
  signal s3 : <<resfn|resolve_bit>> bit;
  constant c1 : vec_t(<<int|0>> to <<int|1>>) := "00";
  type elem_rec_t is record
    f : vec_t(<<int|0>> to <<int|3>>);
    g : integer range <<int|0>> to <<int|9>>;
    h : mat_t(open)(<<int|0>> to <<int|1>>);
  end record;
  type ptr2_t is access vec_t(<<int|0>> to <<int|7>>);
  type ptr3_t is access mat_t(open)(<<int|0>> to <<int|7>>);
  alias al1 : vec_t(<<int|0>> to <<int|1>>) is s1(0 to 1);
  signal sb : <<tmark|integer>>;
  constant cb : <<tmark|natural>> := 1;
  subtype sbt is <<tmark|integer>> range 0 to 3;
  type rb_t is record
    f : <<tmark|bit>>;
  end record;
begin
  pr : process
    variable v1 : mat_t(open)(<<int|0>> to <<int|3>>);
    variable v2 : rec_t(data(<<int|0>> to <<int|hi_c>>));
    variable v3 : integer range <<int|lo_c>> to <<int|hi_c>>;
    variable pp : vec_ptr_t;
    variable v4 : rec_arr_t(<<int|0>> to <<int|1>>)(data(<<int|0>> to <<int|3>>));
    variable vb : <<tmark|natural>>;
  begin
    pp := new vec_t(<<int|0>> to <<int|hi_c>>);
    wait;
  end process;
end architecture;
"""
WRONG["resfn"] = "hi_c"


def parse_sites(text):
    """-> (plain text, [(kind, start offset, end offset)]) with the markers removed"""
    out = []
    sites = []
    i = 0
    while i < len(text):
        j = text.find("<<", i)
        if j < 0:
            out.append(text[i:])
            break
        out.append(text[i:j])
        e = text.index(">>", j)
        kind, expr = text[j + 2:e].split("|", 1)
        pos = sum(len(x) for x in out)
        out.append(expr)
        sites.append((kind, pos, pos + len(expr)))
        i = e + 2
    return "".join(out), sites


def line_col(text, off):
    line = text.count("\n", 0, off)
    col = off - (text.rfind("\n", 0, off) + 1)
    return line, col


def expr_programs(k, r, per_kind, which=1):
    """base program + planted variants: [(pid, lib, files, expectation or None)]; which = 1: statements, 2: subtype indications"""
    lib = ("xl%d" if which == 1 else "yl%d") % k
    pkg = (PKG if which == 1 else PKG2).format(k=k)
    user_plain, sites = parse_sites((USER if which == 1 else USER2).format(k=k, lib=lib))
    tagp = "x" if which == 1 else "y"
    progs = [("%s%d.base" % (tagp, k), lib, [("x_pkg.vhd", pkg), ("x_user.vhd", user_plain)], None)]
    chosen = list(range(len(sites)))
    r.shuffle(chosen)
    # the optional parts that are easiest to forget come first in every run: exit / next with a loop label
    lines = user_plain.split("\n")
    def labelled(si):
        l = lines[line_col(user_plain, sites[si][1])[0]].strip()
        if sites[si][0] == "tmark":
            return True
        if "(open)" in l:
            # an element constraint after `(open)`: the site lies behind the (open)
            return sites[si][1] > user_plain.index("(open)", user_plain.rfind("\n", 0, sites[si][1]) + 1)
        return l.startswith(("exit ", "next ")) and not l.startswith(("exit when", "next when"))
    chosen = [si for si in chosen if labelled(si)] + [si for si in chosen if not labelled(si)]
    n = 0
    for si in chosen[:per_kind]:
        kind, a, b = sites[si]
        if kind == "tmark":
            # T'base is only allowed as the prefix of another attribute (F68): the error is expected on the T'base span
            plants = (("undeclared", "undeclared_0", {"Unresolved"}),
                      ("base_misuse", user_plain[a:b] + "'base", {"IllegalAttribute", "MismatchedKinds"}))
        else:
            plants = (("undeclared", "undeclared_0", {"Unresolved"}),
                      ("wrong_type", WRONG[kind], WRONG_CODES.get(kind, {"TypeMismatch"})))
        for fault, repl, codes in plants:
            text = user_plain[:a] + repl + user_plain[b:]
            line, col = line_col(text, a)
            n += 1
            # a wrong-typed operand / actual of an overloaded call / case expression may be blamed at the operator, the
            # callee or the choices: the oracle for wrong_type is "an error of these codes on the lines of the statement"
            span = 3 if user_plain.split("\n")[line].strip().startswith(("case ", "with ")) else 0
            progs.append(("%s%d.s%d.%s" % (tagp, k, si, fault), "%s_%d" % (lib, n),
                          [("x_pkg.vhd", pkg), ("x_user.vhd", text.replace("%s." % lib, "%s_%d." % (lib, n)).replace("library %s;" % lib, "library %s_%d;" % (lib, n)))],
                          {"fault": fault, "kind": kind, "file": "x_user.vhd", "line": line, "col": col, "len": len(repl),
                           "codes": sorted(codes | ({"Unresolved", "AmbiguousCall"} if fault == "wrong_type" else set())),
                           "cover": fault != "wrong_type", "span": span,
                           "site": user_plain.split("\n")[line].strip()}))
    return progs


# ----------------------------------------------------------------------------------------------
# duplicate declarations: every declaration kind in every kind of region, with and without a separate declaration
# ----------------------------------------------------------------------------------------------
# (region, lines before, the declaration (first line carries the name NAME), lines after)
DUP_CASES = [
    ("package", "constant NAME : integer := 1;"),
    ("package", "signal NAME : bit;"),
    ("package", "type NAME is (a_l, b_l);"),
    ("package", "subtype NAME is integer range 0 to 3;"),
    ("package", "type NAME is range 0 to 9;"),
    ("package", "type NAME is record\n    f : integer;\n  end record;"),
    ("package", "type NAME is array (0 to 1) of bit;"),
    ("package", "component NAME is\n    port (x : in bit);\n  end component;"),
    ("package", "function NAME (x : integer) return integer;"),
    ("package", "procedure NAME (x : in integer);"),
    ("package", "alias NAME is integer;"),
    ("package", "attribute NAME : integer;"),
    ("package", "file NAME : fil_t;"),
    ("package", "shared variable NAME : prot_t;"),
    ("package_body", "constant NAME : integer := 1;"),
    ("package_body", "type NAME is (a_l, b_l);"),
    ("package_body", "function NAME (x : integer) return integer is\n  begin\n    return x;\n  end function;"),
    ("package_body", "procedure NAME (x : in integer) is\n  begin\n    null;\n  end procedure;"),
    # declaration in the package, body + second body in the package body
    ("package_body_of_decl_f", "function declared_f (x : integer) return integer is\n  begin\n    return x;\n  end function;"),
    ("package_body_of_decl_p", "procedure declared_p (x : in integer) is\n  begin\n    null;\n  end procedure;"),
    ("protected_body", "procedure bump is\n    begin\n      cnt := cnt + 1;\n    end procedure;"),
    ("architecture", "signal NAME : bit;"),
    ("architecture", "constant NAME : integer := 1;"),
    ("architecture", "type NAME is (a_l, b_l);"),
    ("architecture", "component NAME is\n    port (x : in bit);\n  end component;"),
    ("architecture", "function NAME (x : integer) return integer is\n  begin\n    return x;\n  end function;"),
    ("architecture_fwd", "function NAME (x : integer) return integer is\n  begin\n    return x;\n  end function;"),
    ("architecture_fwd", "procedure NAME (x : in integer) is\n  begin\n    null;\n  end procedure;"),
    ("process", "variable NAME : integer;"),
    ("process", "constant NAME : integer := 1;"),
    ("process", "type NAME is (a_l, b_l);"),
    ("process_fwd", "function NAME (x : integer) return integer is\n    begin\n      return x;\n    end function;"),
    ("subprogram", "variable NAME : integer;"),
    ("subprogram", "constant NAME : integer := 1;"),
    ("subprogram_fwd", "function NAME (x : integer) return integer is\n    begin\n      return x;\n    end function;"),
    ("block", "signal NAME : bit;"),
    ("block", "constant NAME : integer := 1;"),
    ("generate", "signal NAME : bit;"),
    ("entity_port", "NAME : in bit"),
    ("entity_generic", "NAME : integer := 1"),
    ("record_field", "NAME : integer;"),
    ("enum_literal", "NAME"),
    ("parameter", "NAME : integer"),
]


def dup_program(k, ci, dup):
    """the program for DUP_CASES[ci]; dup = write the declaration twice.  -> (lib, files, expectation)"""
    region, decl = DUP_CASES[ci]
    lib = "dl%d_%d%s" % (k, ci, "d" if dup else "b")
    name = "dupname"
    d = decl.replace("NAME", name)
    two = (d + "\n  " + d) if dup else d
    sep = {"entity_port": ";\n    ", "entity_generic": ";\n    ", "enum_literal": ", ", "parameter": "; "}.get(region)
    if sep:
        two = (d + sep + d) if dup else d
    fwd_f = "function %s (x : integer) return integer;" % name
    fwd_p = "procedure %s (x : in integer);" % name
    fwd = fwd_p if decl.startswith("procedure") else fwd_f
    pk = ["package dp is", "  type fil_t is file of integer;", "  type prot_t is protected", "    procedure bump;", "  end protected;",
          "  function declared_f (x : integer) return integer;", "  procedure declared_p (x : in integer);"]
    pb = ["package body dp is", "  type prot_t is protected body", "    variable cnt : integer := 0;",
          "    " + ("@@" if region == "protected_body" else "procedure bump is\n    begin\n      cnt := cnt + 1;\n    end procedure;"),
          "  end protected body;"]
    if region == "package_body_of_decl_f":
        pb += ["  @@", "  procedure declared_p (x : in integer) is\n  begin\n    null;\n  end procedure;"]
    elif region == "package_body_of_decl_p":
        pb += ["  function declared_f (x : integer) return integer is\n  begin\n    return x;\n  end function;", "  @@"]
    else:
        pb += ["  function declared_f (x : integer) return integer is\n  begin\n    return x;\n  end function;",
               "  procedure declared_p (x : in integer) is\n  begin\n    null;\n  end procedure;"]
    if region == "package":
        pk.append("  @@")
    if region == "package_body":
        pb.append("  @@")
    if region == "record_field":
        pk.append("  type r_t is record\n    @@\n  end record;")
    if region == "enum_literal":
        pk.append("  type e_t is (first_l, @@);")
    if region == "parameter":
        pk.append("  procedure pp (@@);")
        pb.append("  procedure pp (%s) is\n  begin\n    null;\n  end procedure;" % (d + "; " + d if dup else d))
    pk.append("end package;")
    pb.append("end package body;")
    ent = ["entity de is", "  generic (g0 : integer := 0%s);" % ((";\n    @@") if region == "entity_generic" else ""),
           "  port (p0 : in bit%s);" % ((";\n    @@") if region == "entity_port" else ""), "end entity;"]
    ar = ["library %s;" % lib, "use %s.dp.all;" % lib, "architecture a of de is"]
    if region == "architecture":
        ar.append("  @@")
    if region == "architecture_fwd":
        ar += ["  " + fwd, "  @@"]
    ar += ["  function outer_f (y : integer) return integer is"]
    if region == "subprogram":
        ar.append("    @@")
    if region == "subprogram_fwd":
        ar += ["    " + fwd_f, "    @@"]
    ar += ["  begin", "    return y;", "  end function;", "begin", "  pr : process"]
    if region == "process":
        ar.append("    @@")
    if region == "process_fwd":
        ar += ["    " + fwd_f, "    @@"]
    ar += ["  begin", "    wait;", "  end process;", "  blk : block"]
    if region == "block":
        ar.append("    @@")
    ar += ["  begin", "  end block;", "  gen : if true generate"]
    if region == "generate":
        ar.append("    @@")
    ar += ["  begin", "  end generate;", "end architecture;"]
    files = []
    exp = None
    for fname, lines in (("d_pkg.vhd", pk), ("d_body.vhd", pb), ("d_ent.vhd", ent), ("d_arch.vhd", ar)):
        text = "\n".join(lines) + "\n"
        if "@@" in text:
            a = text.index("@@")
            text = text[:a] + two + text[a + 2:]
            if dup:
                # the name in the SECOND copy
                key = name if "NAME" in decl else ("declared_f" if "declared_f" in decl else ("declared_p" if "declared_p" in decl else "bump"))
                first = text.index(key, a)
                second = text.index(key, a + len(d))
                line, col = line_col(text, second)
                exp = {"fault": "duplicate", "kind": region, "file": fname, "line": line, "col": col, "len": len(key),
                       "codes": ["Duplicate"], "cover": True, "span": 0, "site": decl.split("\n")[0]}
        files.append((fname, text))
    return lib, files, exp


def dup_programs(k, r, n):
    idx = list(range(len(DUP_CASES)))
    r.shuffle(idx)
    # second body of a subprogram that has a separate declaration: in every run
    pri = [ci for ci in idx if DUP_CASES[ci][0].endswith(("_fwd", "_of_decl_f", "_of_decl_p")) or DUP_CASES[ci][0] == "protected_body"]
    idx = pri + [ci for ci in idx if ci not in pri]
    progs = []
    for ci in idx[:n]:
        lib, files, _ = dup_program(k, ci, False)
        progs.append(("d%d.c%d.base" % (k, ci), lib, files, None))
        lib, files, exp = dup_program(k, ci, True)
        progs.append(("d%d.c%d.dup" % (k, ci), lib, files, exp))
    return progs


def write_bundle(progs, path):
    with open(path, "w") as f:
        for pid, lib, files, _ in progs:
            f.write("P %s\n" % pid)
            for name, text in files:
                lines = text.split("\n")
                if lines and lines[-1] == "":
                    lines = lines[:-1]
                f.write("F %s %s_%s %d\n" % (lib, lib, name, len(lines)))
                for l in lines:
                    f.write(l + "\n")


def all_programs(seed_, tier):
    r = random.Random(seed_ * 97 + 11)
    progs = []
    if tier == "quick":
        progs += expr_programs(0, r, 24)
        progs += expr_programs(0, r, 14, which=2)
        progs += dup_programs(0, r, 16)
    else:
        for k in range(6):
            progs += expr_programs(k, r, 200)
            progs += expr_programs(k, r, 200, which=2)
        for k in range(3):
            progs += dup_programs(k, r, len(DUP_CASES))
    return progs


def satisfied(exp, lib, errs):
    """is the expectation of a planted template met by the error diagnostics?"""
    f = lib + "_" + exp["file"]
    for d in errs:
        if d["file"] != f or d["code"] not in exp["codes"]:
            continue
        if exp["cover"]:
            if (d["sl"], d["sc"]) <= (exp["line"], exp["col"]) and (d["el"], d["ec"]) >= (exp["line"], exp["col"] + exp["len"]):
                return True
        elif exp["line"] <= d["sl"] <= exp["line"] + exp["span"]:
            return True
    return False
