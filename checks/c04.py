"""C04 — Parallel analysis terminates and is schedule-independent.

Stages: (1) Coq theorems about the lock-protocol model Kernel/Conc.v; (2) request-graph projects
(corpus + generated) are analysed by the real implementation in child processes under rayon pools
of 1, 2, 3, 4, 8, 16 workers, several library/file listing orders each, under a watchdog; (3) all
runs of one project must give the same observables (oracle) and the positions of the
CircularDependency diagnostics must be the ones the extracted model predicts (correspondence);
(4) a sample of the model runs is re-evaluated inside Coq.
"""
import json
import os
import select
import signal
import threading
import time
from vlib.common import *

PROP = "C04"
POOLS = [1, 2, 3, 4, 8, 16]
SILENCE_S = 20.0      # no output for this long => look at the CPU clock of the child
HARD_S = 150.0        # no output for this long => hang whatever the CPU clock says
# request kinds of the generator whose circular error the caller discards.  None in the code of today:
# `x` (use clause that is not a selected name) propagates since 052b116, `s` (type mark of a signature after an
# unresolved one) since 3eb236e.  The model keeps the flag (Kernel/Conc.v `swallow`) for the refutation lemmas.
DISCARDING_KINDS = set()
FINDING_CLASS = "discarded-circular-error"   # known_findings.json: open C04 entry with match.class == this


# ----------------------------------------------------------------------------------------------
# request graph of a case, as the model sees it
# ----------------------------------------------------------------------------------------------
def model_requests(case):
    """per unit: list of (target, swallow, line)"""
    units = case["units"]
    out = []
    for u in units:
        rs = []
        for r in u["reqs"]:
            k, t, line = r["k"], r["t"], r["line"]
            if k in DISCARDING_KINDS:
                rs.append((t, 1, line))
            elif k == "l":
                for v in units:
                    if v["lib"] == t and v["kind"] in ("P", "E"):
                        rs.append((v["u"], 0, line))
            elif k == "j":
                rs.append((units[t]["of"], 0, line))
                rs.append((t, 0, line))
            else:
                rs.append((t, 0, line))
        out.append(rs)
    return out


def model_line(reqs):
    return ";".join(",".join("%d:%d" % (t, s) for t, s, _ in rs) for rs in reqs)


def bad_units(reqs):
    """units that lie on or reach a cycle of the static request graph"""
    n = len(reqs)
    succ = [sorted({t for t, _, _ in rs}) for rs in reqs]
    reach = []
    for u in range(n):
        seen, work = set(), list(succ[u])
        while work:
            x = work.pop()
            if x not in seen:
                seen.add(x)
                work.extend(succ[x])
        reach.append(seen)
    on_cycle = {u for u in range(n) if u in reach[u]}
    return {u for u in range(n) if u in on_cycle or reach[u] & on_cycle}


def swallow_unsafe(reqs):
    bad = bad_units(reqs)
    return any(s == 1 and t in bad for rs in reqs for t, s, _ in rs)


def expected_units(case):
    """ids of all design units of the project in the notation of hook H2 (`library|kind|primary|secondary`)"""
    out = []
    us = case["units"]
    for u in us:
        lib = "l%d" % u["lib"]
        if u["kind"] == "P":
            out.append("%s|package|%s|-" % (lib, u["name"]))
        elif u["kind"] == "E":
            out.append("%s|entity|%s|-" % (lib, u["name"]))
        else:
            out.append("%s|architecture|%s|%s" % (lib, us[u["of"]]["name"], u["name"]))
    return sorted(out)


def predicted_circ(case, reqs, vec):
    """vector 'N 0 2 ...' -> sorted list of 'file:line'"""
    out = []
    for u, x in enumerate(vec.split()):
        if x not in ("N", "V", "W"):
            out.append("%s:%d" % (case["units"][u]["file"], reqs[u][int(x)][2]))
    return sorted(out)


# ----------------------------------------------------------------------------------------------
# child processes with watchdog
# ----------------------------------------------------------------------------------------------
def cpu_ticks(pid):
    try:
        f = open("/proc/%d/stat" % pid).read().rsplit(")", 1)[1].split()
        return int(f[11]) + int(f[12])
    except Exception:
        return None


def drive(hbin, cases_path, workdir, orders, sd, threads, ncases, results, hangs, errors, aborted, silence=SILENCE_S):
    """runs `c04 run` for one pool size, restarting after a hang; fills results[(ci,k,threads)]"""
    env = env_base()
    env["RAYON_NUM_THREADS"] = str(threads)
    start = (0, 0)
    nhung = 0
    while start[0] < ncases:
        p = subprocess.Popen([hbin, "run", cases_path, workdir, str(orders), str(sd), str(start[0]), str(start[1])],
                             stdout=subprocess.PIPE, stderr=subprocess.DEVNULL, env=env)
        fd = p.stdout.fileno()
        buf = b""
        cur = None
        last = time.time()
        hung = False
        eof = False
        while not eof:
            r, _, _ = select.select([fd], [], [], 1.0)
            if r:
                chunk = os.read(fd, 1 << 16)
                if not chunk:
                    eof = True
                buf += chunk
                last = time.time()
                while b"\n" in buf:
                    line, buf = buf.split(b"\n", 1)
                    line = line.decode("utf-8", "replace")
                    if line.startswith("BEGIN "):
                        _, a, b = line.split()
                        cur = (int(a), int(b))
                    elif line.startswith("END "):
                        _, a, b, js = line.split(" ", 3)
                        try:
                            results[(int(a), int(b), threads)] = json.loads(js)
                        except ValueError:
                            errors.append("unparsable END line (threads=%d): %s" % (threads, line[:200]))
                        cur = None
            else:
                quiet = time.time() - last
                if cur is not None and quiet > silence:
                    c0 = cpu_ticks(p.pid)
                    time.sleep(1.0)
                    c1 = cpu_ticks(p.pid)
                    idle = c0 is not None and c1 is not None and (c1 - c0) <= 2
                    if idle or quiet > HARD_S:
                        hung = True
                        hangs.append({"case": cur[0], "k": cur[1], "threads": threads,
                                      "cpu_idle": bool(idle), "silent_s": round(quiet, 1)})
                        break
        if hung:
            try:
                p.send_signal(signal.SIGKILL)
            except Exception:
                pass
            p.wait()
            # the remaining orders of a hung case are skipped; after three hung cases this pool stops
            start = (cur[0] + 1, 0)
            nhung += 1
            if nhung >= 3:
                aborted.append(threads)
                break
            continue
        rc = p.wait()
        if rc != 0:
            errors.append("harness `c04 run` exited with %s (threads=%d) after case %s" % (rc, threads, cur))
            if cur is not None:
                nk = cur[1] + 1
                start = (cur[0], nk) if nk < orders else (cur[0] + 1, 0)
                continue
        break


def run_all(hbin, cases_path, workroot, orders, sd, ncases, pools, silence=SILENCE_S):
    results, hangs, errors, aborted = {}, [], [], []
    ths = []
    for t in pools:
        wd = os.path.join(workroot, "t%d" % t)
        run("rm -rf '%s'" % wd)
        os.makedirs(wd, exist_ok=True)
        th = threading.Thread(target=drive, args=(hbin, cases_path, wd, orders, sd, t, ncases, results, hangs, errors, aborted, silence))
        th.start()
        ths.append(th)
    for th in ths:
        th.join()
    return results, hangs, errors, aborted


# ----------------------------------------------------------------------------------------------
def known_entry():
    for e in known_findings(PROP):
        if e.get("kind") == "open" and (e.get("match") or {}).get("class") == FINDING_CLASS:
            return e
    return None


def obs_key(o):
    if "panic" in o or "error" in o:
        return json.dumps(o, sort_keys=True)
    return json.dumps([o["diags"], o["nrefs"], o["refs_hash"], o.get("analyzed")])


def coq_cross_check(res, sample):
    """sample: list of (reqs, asc_vector) — re-evaluate the one-thread run inside Coq"""
    if not sample:
        return
    items = []
    for reqs, vec in sample:
        deps = "[" + "; ".join("[" + "; ".join("(%d, %s)" % (t, "true" if s else "false") for t, s, _ in rs) + "]"
                               for rs in reqs) + "]"
        exp = "[" + "; ".join("Done None" if x == "N" else "Done (Some %s)" % x for x in vec.split()) + "]"
        items.append("(%s, %s)" % (deps, exp))
    pre = ("From Coq Require Import List Arith Bool.\nImport ListNotations.\nFrom RH Require Import Kernel.Conc.\n"
           "Definition cases : list (list (list req) * list lockst) := [\n" + ";\n".join(items) + "].\n")
    body = ("forallb (fun c => let s0 := init (length (fst c)) 1 in "
            "list_eqb lock_eqb (locks (run_first (fst c) false (S (measure (fst c) s0)) s0)) (snd c)) cases")
    v, log = coq_eval_bool(PROP, "sample", pre, body)
    res.coverage["in_coq_vm_compute_cases"] = len(items)
    if v is not True:
        res.violation("extracted model and in-Coq evaluation (vm_compute) of the one-thread run disagree",
                      {"kind": "correspondence", "correspondence": "extraction vs vm_compute (RH.Kernel.Conc.run_first)",
                       "log": log[-2000:]}, no_failing_input=True)


def symtab_stage(res, hbin, sd, rounds, pools):
    """direct stress of SymbolTable::{lookup, insert, insert_extended} from t threads"""
    rc, out = run([hbin, "symtab", str(sd), str(rounds), ",".join(str(t) for t in pools)], timeout=900)
    tot = 0
    for line in out.split("\n"):
        if not line.startswith("{"):
            continue
        o = json.loads(line)
        tot += o["inserts"]
        res.count_case("symtab %d %d %d" % (sd, rounds, o["threads"]), o["threads"] > 1)
        if o["problems"]:
            res.violation("symbol table is schedule dependent under %d threads: %s" % (o["threads"], o["problems"][0]),
                          {"kind": "symtab", "seed": sd, "rounds": rounds, "threads": o["threads"], "problems": o["problems"],
                           "replay_cmd": "./check C04 --replay <this file>"})
    if rc != 0:
        res.violation("harness `c04 symtab` failed", {"kind": "harness", "log": out[-2000:]}, no_failing_input=True)
    res.coverage["symtab_concurrent_inserts"] = tot


def symseq_stage(res, hbin, mbin, d, sd, count):
    """sequential insertion sequences: real SymbolTable vs extracted model Symtab.classes"""
    cases, impl, model = (os.path.join(d, "symseq." + x) for x in ("cases", "impl", "model"))
    rc, out = run([hbin, "symseq", str(sd), str(count), cases, impl], timeout=900)
    if rc != 0:
        res.violation("harness `c04 symseq` failed", {"kind": "harness", "log": out[-2000:]}, no_failing_input=True)
        return
    with open(cases) as fin, open(model, "w") as fout:
        p = subprocess.run([mbin], stdin=fin, stdout=fout)
    n = bad = 0
    for c, i, m in zip(open(cases), open(impl), open(model)):
        n += 1
        c, i, m = c.rstrip("\n"), i.rstrip("\n"), m.rstrip("\n")
        res.count_case(c, len(c.split(";")) >= 4)
        if i != m:
            bad += 1
            if bad <= 3:
                res.violation("symbol ids of a sequential insertion sequence differ from the model Symtab.classes: impl [%s] model [%s]"
                              % (i, m), {"kind": "correspondence", "correspondence": "SymbolTable::insert/insert_extended vs "
                                         "RH.Symtab.Symtab.classes (extracted)", "case": c, "impl": i, "model": m},
                              no_failing_input=(i != "PANIC"))
    res.coverage["symtab_sequences"] = n


def main(tier, replay=None):
    res = Result(PROP, tier, level="proof")
    d = rundir(PROP)
    thorough = tier == "thorough"
    proof_stage(res, PROP, extra_targets=(["Props/C04Sweep.vo"] if thorough else []), thorough=thorough)
    ok, log, hbin = harness_build("c04")
    if not ok:
        res.violation("harness build failed against the current /repo tree", {"kind": "build", "log": log[-3000:]},
                      no_failing_input=True)
        return res.finish()
    ok, log, mbin = ocaml_build("c04_run")
    if not ok:
        res.violation("extracted model build failed", {"kind": "build", "log": log[-3000:]}, no_failing_input=True)
        return res.finish()

    sd = seed()
    if replay and json.load(open(replay)).get("kind") == "symtab":
        rp = json.load(open(replay))
        symtab_stage(res, hbin, rp["seed"], rp["rounds"], [rp["threads"]])
        return res.finish()
    cases = []      # (tag, case)
    pools = POOLS
    orders = 6 if thorough else 3
    if replay:
        rp = json.load(open(replay))
        cases.append(("replay", rp["case"]))
        sd = rp.get("seed", sd)
        orders = rp.get("orders", orders)
        if rp.get("threads"):
            pools = sorted(set(POOLS + [rp["threads"]]))
    else:
        corpus = os.path.join(VERIF, "corpus", "C04.cases")
        if os.path.exists(corpus):
            for line in open(corpus):
                if line.strip():
                    cases.append(("corpus", json.loads(line)))
        genfile = os.path.join(d, "gen.jsonl")
        ngen = 1500 if thorough else 220
        rc, out = run([hbin, "gen", str(sd), str(ngen), "10" if thorough else "9", genfile], timeout=600)
        if rc != 0:
            res.violation("harness c04 gen crashed", {"kind": "harness", "log": out[-2000:]}, no_failing_input=True)
            return res.finish()
        for line in open(genfile):
            cases.append(("gen", json.loads(line)))
    cases_path = os.path.join(d, "cases.jsonl")
    with open(cases_path, "w") as f:
        for _, c in cases:
            f.write(json.dumps(c) + "\n")

    # model
    reqs_all = [model_requests(c) for _, c in cases]
    mi = os.path.join(d, "model.in")
    open(mi, "w").write("".join(model_line(r) + "\n" for r in reqs_all))
    with open(mi) as fin:
        p = subprocess.run([mbin], stdin=fin, stdout=subprocess.PIPE)
    mlines = p.stdout.decode().split("\n")
    if p.returncode != 0 or len(mlines) < len(cases):
        res.violation("extracted model runner failed", {"kind": "build"}, no_failing_input=True)
        return res.finish()

    # implementation
    t0 = time.time()
    results, hangs, errors, aborted = run_all(hbin, cases_path, os.path.join(d, "proj"), orders, sd, len(cases), pools)
    impl_s = time.time() - t0
    for e in errors[:3]:
        res.violation("harness problem: " + e, {"kind": "harness", "detail": e}, no_failing_input=True)

    kf = known_entry()
    stats = {"cases": len(cases), "runs": len(results), "hangs": len(hangs), "cyclic": 0, "acyclic": 0,
             "swallow_unsafe": 0, "with_swallow": 0, "explored_2_workers": 0, "model_states_explored": 0,
             "shapes": {}, "units_hist": {}, "old_code_would_deadlock": 0, "impl_seconds": round(impl_s, 1)}
    nviol = 0
    known_hits = 0
    sample = []

    def replay_obj(ci, what_kind, extra):
        o = {"kind": what_kind, "case": cases[ci][1], "seed": sd, "orders": orders,
             "replay_cmd": "./check C04 --replay <this file>"}
        o.update(extra)
        return o

    hang_cases = {}
    for h in sorted(hangs, key=lambda h: (h["case"], h["threads"], h["k"])):
        hang_cases.setdefault(h["case"], []).append(h)

    for ci, (tag, case) in enumerate(cases):
        reqs = reqs_all[ci]
        ml = mlines[ci].split("|")
        if len(ml) != 4:
            res.violation("model runner rejected a case", {"kind": "harness", "case": case, "model": mlines[ci]},
                          no_failing_input=True)
            continue
        asc, desc, expl, old1 = ml
        bad = bad_units(reqs)
        unsafe = swallow_unsafe(reqs)
        has_sw = any(s for rs in reqs for _, s, _ in rs)
        stats["cyclic" if bad else "acyclic"] += 1
        stats["swallow_unsafe"] += 1 if unsafe else 0
        stats["with_swallow"] += 1 if has_sw else 0
        stats["old_code_would_deadlock"] += 1 if old1 == "1" else 0
        stats["shapes"][case.get("shape", "?")] = stats["shapes"].get(case.get("shape", "?"), 0) + 1
        nu = str(len(case["units"]))
        stats["units_hist"][nu] = stats["units_hist"].get(nu, 0) + 1
        res.count_case(json.dumps(case["files"], sort_keys=True), bool(bad) or len(case["units"]) >= 4)
        model_finals = None
        if expl != "skip":
            st, stuck, nfin, fins = expl.split(":", 3)
            stats["explored_2_workers"] += 1
            stats["model_states_explored"] += int(st)
            model_finals = fins.split(",")
            if int(stuck) > 0 or (int(nfin) != 1 and not unsafe) or asc.startswith("!"):
                # the model itself is not deadlock-free / confluent on this graph: the theorems say this cannot happen
                nviol += 1
                res.violation("the extracted model has a stuck state or two different results on a swallow-safe graph "
                              "(contradicts C04_deadlock_free / C04_confluent_cyclic)",
                              replay_obj(ci, "correspondence", {"correspondence": "model self-check", "model": mlines[ci]}),
                              no_failing_input=True)
        if ci % 37 == 0 and not asc.startswith("!"):
            sample.append((reqs, asc))
        if ci < 3 or (bad and len(res.samples) < 5):
            res.add_sample({"shape": case.get("shape"), "units": len(case["units"]), "model": mlines[ci][:200],
                            "requests": model_line(reqs)})

        # -- oracle 1: termination
        if ci in hang_cases:
            h = hang_cases[ci][0]
            nviol += 1
            if nviol <= 10:
                res.violation("analysis does not terminate (deadlock): Project::analyse() under %d rayon worker(s) made no "
                              "progress for %.0f s (%s); model says the pre-fix protocol %s deadlock on this graph"
                              % (h["threads"], h["silent_s"], "all threads idle" if h["cpu_idle"] else "busy",
                                 "can" if old1 == "1" else "cannot"),
                              replay_obj(ci, "input", {"threads": h["threads"], "k": h["k"], "hangs": hang_cases[ci]}))
            continue
        runs = {(k, t): results.get((ci, k, t)) for k in range(orders) for t in pools}
        if aborted:
            # pools that stopped after three hung cases did not run the later cases
            runs = {kt: o for kt, o in runs.items() if not (o is None and kt[1] in aborted)}
            if not runs:
                continue
        missing = [kt for kt, o in runs.items() if o is None]
        if missing:
            res.violation("no result for some runs of a case (harness problem)",
                          {"kind": "harness", "case": case, "missing": missing[:5]}, no_failing_input=True)
            continue
        bad_runs = [(kt, o) for kt, o in runs.items() if "panic" in o or "error" in o]
        if bad_runs:
            nviol += 1
            if nviol <= 10:
                (k, t), o = bad_runs[0]
                res.violation("analysis panicked / project could not be loaded: %s" % json.dumps(o)[:300],
                              replay_obj(ci, "input", {"threads": t, "k": k}))
            continue
        # -- oracle 1b: the loading phase: diagnostic MULTISET of the loaded project = one-file-at-a-time reference
        seq_bad = [(kt, o) for kt, o in sorted(runs.items(), key=lambda x: (x[0][1], x[0][0]))
                   if "seq_diags" in o and o["diags"] != o["seq_diags"]]
        if seq_bad:
            (k, t), o = seq_bad[0]
            nviol += 1
            stats["loading_mismatch"] = stats.get("loading_mismatch", 0) + 1
            if nviol <= 10:
                extra = [x for x in o["diags"] if o["diags"].count(x) > o["seq_diags"].count(x)]
                lost = [x for x in o["seq_diags"] if o["seq_diags"].count(x) > o["diags"].count(x)]
                res.violation("parallel loading is schedule dependent: Project::from_config + analyse() under %d rayon worker(s), "
                              "listing order %d, reports %d diagnostics, parsing every file alone gives %d (%d runs of this "
                              "project differ from the reference)" % (t, k, len(o["diags"]), len(o["seq_diags"]), len(seq_bad)),
                              replay_obj(ci, "input", {"threads": t, "k": k, "surplus": sorted(set(extra))[:5],
                                                       "missing": sorted(set(lost))[:5],
                                                       "counts_per_run": {"%d threads, order %d" % (kt[1], kt[0]): len(oo["diags"])
                                                                          for kt, oo in seq_bad[:12]}}))
            continue
        if any("seq_diags" in o for o in runs.values()):
            stats["loading_projects"] = stats.get("loading_projects", 0) + 1
        # -- oracle 1d: legal projects whose results must not depend on symbol ids: only the expected diagnostic codes
        if case.get("expect_codes") is not None:
            allowed = set(case["expect_codes"])
            wrong = [(kt, o, [x for x in o["diags"] if x.split("|")[0] not in allowed])
                     for kt, o in sorted(runs.items(), key=lambda x: (x[0][1], x[0][0]))]
            wrong = [w for w in wrong if w[2]]
            if wrong:
                (k, t), o, ds = wrong[0]
                nviol += 1
                if nviol <= 10:
                    res.violation("a legal project (same-line interface objects / record elements / parameters with positional "
                                  "association) gets %d spurious diagnostic(s) under %d rayon worker(s), listing order %d, e.g. %s "
                                  "(%d of %d runs affected: results depend on symbol ids, i.e. on the loader schedule)"
                                  % (len(ds), t, k, ds[0][:160], len(wrong), len(runs)),
                                  replay_obj(ci, "input", {"threads": t, "k": k, "spurious": ds[:6]}))
                continue
        # -- oracle 1c: no lost unit: the list DesignRoot::analyze returns for a fresh project (the units handed to the
        #    linters) is the list of all units, on every schedule
        if not case.get("seqref"):
            exp_units = expected_units(case)
            lost = [(kt, o) for kt, o in sorted(runs.items(), key=lambda x: (x[0][1], x[0][0]))
                    if o.get("analyzed") is not None and o["analyzed"] != exp_units]
            if lost:
                (k, t), o = lost[0]
                nviol += 1
                if nviol <= 10:
                    res.violation("DesignRoot::analyze of a freshly loaded project returned %d of its %d units as analysed under %d "
                                  "rayon worker(s), listing order %d (%d runs of this project lose units; the linters only see "
                                  "the returned units)" % (len(o["analyzed"]), len(exp_units), t, k, len(lost)),
                                  replay_obj(ci, "input", {"threads": t, "k": k,
                                                           "missing": sorted(set(exp_units) - set(o["analyzed"]))[:8],
                                                           "surplus": sorted(set(o["analyzed"]) - set(exp_units))[:8]}))
                continue
        # -- oracle 2: schedule independence
        groups = {}
        for kt, o in runs.items():
            groups.setdefault(obs_key(o), []).append(kt)
        circs = {json.dumps(o["circ"]) for o in runs.values()}
        if len(groups) > 1:
            keys = sorted(groups, key=lambda g: -len(groups[g]))
            a, b = groups[keys[0]][0], groups[keys[1]][0]
            detail = {"run_a": {"k": a[0], "threads": a[1], "obs": runs[a]}, "run_b": {"k": b[0], "threads": b[1], "obs": runs[b]},
                      "distinct_outcomes": len(groups), "model": mlines[ci]}
            if unsafe and kf is not None:
                known_hits += 1
                continue
            nviol += 1
            if nviol <= 10:
                why = ("diagnostics / reference map of one project differ between runs (k=%d,threads=%d) and (k=%d,threads=%d)"
                       % (a[0], a[1], b[0], b[1]))
                if unsafe:
                    why += (" — the project has a use clause that discards a circular-dependency error on a unit of a "
                            "dependency cycle (model: C04_order_dependent_refuted; known_findings class %s)" % FINDING_CLASS)
                res.violation(why, replay_obj(ci, "input", detail))
            continue
        # -- correspondence: positions of the CircularDependency diagnostics
        impl_circ = sorted(next(iter(runs.values()))["circ"])
        if unsafe:
            # several results are possible; they are all known only when the model could be explored
            cands = [predicted_circ(case, reqs, v) for v in (model_finals or [])]
            okc = impl_circ in cands or model_finals is None
        else:
            cands = [predicted_circ(case, reqs, asc.lstrip("!"))]
            okc = impl_circ == cands[0] and asc == desc
        if not okc:
            nviol += 1
            if nviol <= 10:
                res.violation("CircularDependency diagnostics of the implementation are not where the model predicts them: "
                              "impl %s, model %s" % (impl_circ, cands[:3]),
                              replay_obj(ci, "input" if bad else "correspondence",
                                         {"correspondence": "Project::analyse vs RH.Kernel.Conc (extracted)",
                                          "impl_circ": impl_circ, "model_circ": cands[:4], "model": mlines[ci]}),
                              no_failing_input=not bad)
    if known_hits:
        res.known_finding("%s: %d project(s) with a discarded circular-dependency error on a dependency cycle "
                          "gave schedule-dependent diagnostics (%s)" % (kf.get("id", "?"), known_hits, kf.get("open", "")[:200]))
    if not replay:
        symtab_stage(res, hbin, sd, 400 if thorough else 60, pools)
        symseq_stage(res, hbin, mbin, d, sd, 200000 if thorough else 20000)
    coq_cross_check(res, sample[:40])
    stats["known_finding_hits"] = known_hits
    res.coverage["exhaustive"] = False
    res.coverage["stats"] = stats
    res.coverage["pools"] = pools
    res.coverage["orders_per_pool"] = orders
    res.coverage["rule"] = (
        "corpus first (F4 project, F26 and F34 regression projects = circular error formerly discarded by an invalid use "
        "clause / by a signature, 2- and 3-cycles with tail, architectures instantiating each other in both directions "
        "with a third user); then random request graphs of 2-12 design units (packages, entities, architectures) over 1-3 "
        "libraries: acyclic, single cycles, nested cycles, cycles with tails and chords, self-use, `use lib.all` of a "
        "library with a cycle, architecture cycles through `entity l.e(a)` instantiations, dense graphs; requests rendered "
        "as `use l.p;`, `use l.p.all;`, `use l.p.k(0);` (not a selected name), selected names in constant declarations, "
        "`alias g is true [nonexistent_t, l.p.k return boolean];` (type mark after an unresolved one), entity "
        "instantiations with and without architecture; plus projects of 17-40 files that all use the same not yet "
        "interned extended and mixed-case identifiers (symbol table race while parsing in parallel); plus loading-phase "
        "projects of 48-80 independent one-package files (3-5x the largest pool), 20-35 %% of them with a syntax error "
        "(missing `;`, missing `is`, unbalanced parenthesis, dangling operator, misspelt `end`), whose diagnostic "
        "multiset must equal the one-file-at-a-time reference (VHDLParser on each file alone); plus hub projects (4-8 "
        "large packages with type mismatches below operators, unresolved names, wrong argument counts, used by 16-40 "
        "leaf packages: contention on unit locks) and lint_dep projects (10-24 sub/top pairs, the sub architecture "
        "named by the instantiation, so it is reached as a dependency) and symorder projects (legal; fresh identifiers "
        "first seen by several files parsed in parallel name same-line generics / ports / record elements / parameters, "
        "consumed by positional generic and port maps, positional calls and aggregates with differently typed actuals: "
        "symbol ids must not leak into results). All linters are enabled (every generated "
        "architecture has an unused signal and an incomplete sensitivity list); the unit list returned by "
        "DesignRoot::analyze (hook H2) must be the list of all units. Every project is "
        "loaded with Project::from_config (parallel parsing) and analysed under rayon pools of %s workers x %d library/"
        "file listing orders (different directory per order), each in a watchdog-supervised child process (no output "
        "for %d s and an idle CPU clock = deadlock). Direct stress of SymbolTable (barrier-synchronised threads "
        "interning the same fresh names) and sequential differential SymbolTable vs Symtab.classes. non-trivial = the "
        "request graph has a cycle or >= 4 units; distinct by hash of the files"
        % (pools, orders, int(SILENCE_S)))
    res.coverage["explanation"] = (
        "theorem half: deadlock freedom, termination measure, exactly-once and confluence (result of every unit is a "
        "function of the static request graph) are proved for the model for all graphs, thread counts and interleavings; "
        "exploration half: the implementation is tied to the model by the differential run (positions of the circular-"
        "dependency diagnostics) and its termination/schedule independence is tested, not proved")
    res.coverage["trusted_base"] = TRUSTED_BASE_COMMON + [
        "parking_lot RwLock semantics (a reader/writer blocks while a writer holds the lock; fairness abstracted by 'any "
        "enabled worker may step') and rayon par_iter (each item handed out once, a worker runs one item to completion)",
        "a unit's analysis abstracted to its list of requests (target unit, discard-flag); read guards are never held across "
        "another acquisition (inspected: analyze.rs use_all_in_library, get_architecture, lookup_in_library)",
        "OCaml search driver of c04_run.ml (breadth-first enumeration over the extracted successor function)",
        "schedules of the implementation are sampled (thread counts, listing orders, directory names), not enumerated",
        "relaxed atomics (ArenaId counter, Reference cells) are outside the model: uniqueness of fetch_add results is assumed; "
        "their effect is covered only through the cross-run comparison of the reference map",
    ]
    res.coverage["partial"] = False
    res.assumptions = [
        "projects defining one unit name in two files of a library are excepted (never generated)",
        "confluence is claimed for request graphs in which no use clause that discards a circular error targets a unit on/"
        "reaching a cycle (`swallow_safe`); the complement is the model-level refutation C04_order_dependent_refuted "
        "(use clause site fixed by 052b116; signature site of subprogram.rs resolve_signature reported)",
    ]
    return res.finish()
