"""C02 — Parsing is total and yields in-bounds, consistent syntax.

Stages
  1. theorems (coq/Props/C02.v): lexer totality (shared model), the design-file loop under the progress
     hypothesis, slices partition, token ids in slice, EOF marker / pos_before ranges;
  2. ORACLE (decisive for the ~80 production functions, which are not modelled): every generated input goes
     through `VHDLParser::parse_design_source` inside a watched child process (CPU time per input, address-space
     limit, abnormal exit) with catch_unwind; units are walked with a position-touching Searcher, every
     TokenId/TokenSpan of the Debug rendering is checked against the unit's own token vector, diagnostics against
     the text, unit token vectors against an independent tokenisation (harness/src/bin/c02.rs);
  3. correspondence A: the per-iteration cursor records of hook H3 are replayed through the extracted Coq model
     of the loop (RH.Parse.DesignFileLoop.replay); the progress hypothesis is checked on every record and the
     predicted units / slices / Err return are compared with what the implementation returned;
  4. correspondence B: random cursor programs on the real TokenStream (skip/back/set_state/ids/expect_kind/
     pop_if_kind/skip_until/or_recover_until/pos_before/expect_semicolon_or_last/slice_tokens/index/get_span)
     against the extracted RH.Parse.Stream.run_ops, observation by observation;
  5. a sample of 3 and 4 is re-evaluated inside Coq (vm_compute).
"""
import json
import os
import re
import subprocess
import time
from vlib.common import *

PROP = "C02"
NWORK = 16
CPU_LIMIT = 10.0          # base CPU seconds one input may use (typical: < 1 ms; the largest bundled file: < 0.2 s)
CPU_PER_BYTE = 30e-6      # plus this much per byte of the input (measured worst case: 6 us/byte on 1.7 MB of nested external names)
WALL_LIMIT = 1500.0       # wall-clock backstop without any progress of a worker (machine overload tolerant)
OPS_CPU_LIMIT = 60.0      # CPU seconds for the whole cursor-program run (typical: 1-2 s; x10 in the thorough tier)
MAX_REPLAY_TOKENS = 60000   # inputs with more tokens are not replayed through the extracted model (cost), see below
MAX_REPLAY_WORK = 20000000  # iterations x tokens up to which an input is replayed through the extracted loop model
MAX_HANGS = 6            # watchdog kills / process deaths after which a stream is abandoned
MEM_KB = 6000000          # address space of a worker (ulimit -v)
TICK = os.sysconf("SC_CLK_TCK") if hasattr(os, "sysconf") else 100

UNIT_CODE = {"context": 1, "entity": 2, "architecture": 3, "configuration": 4, "package_body": 5,
             "package_instance": 6, "package": 7}


# ----------------------------------------------------------------------------------------------
# watchdog
# ----------------------------------------------------------------------------------------------
def cpu_seconds(pid):
    try:
        with open("/proc/%d/stat" % pid) as f:
            s = f.read()
        f2 = s[s.rindex(")") + 2:].split()
        return (int(f2[11]) + int(f2[12])) / float(TICK)
    except Exception:
        return None


class Worker:
    def __init__(self, wid, hbin, cases, outdir, start, end, stride=1, offset=0):
        self.wid, self.hbin, self.cases, self.outdir = wid, hbin, cases, outdir
        self.start, self.end, self.stride, self.offset = start, end, stride, offset
        self.results = {}
        self.hangs = 0
        self.spawns = 0
        self.proc = None
        self.done = start >= end
        if not self.done:
            self.spawn(start)

    def spawn(self, start):
        self.spawns += 1
        self.out = os.path.join(self.outdir, "w%d_%d.out" % (self.wid, self.spawns))
        if os.path.exists(self.out):
            os.remove(self.out)
        open(self.out, "w").close()
        cmd = 'ulimit -v %d; exec "$0" work "$1" "$2" %d %d %d %d' % (MEM_KB, start, self.end, self.stride, self.offset)
        self.proc = subprocess.Popen(["sh", "-c", cmd, self.hbin, self.cases, self.out],
                                     stdout=subprocess.DEVNULL, stderr=subprocess.DEVNULL, env=env_base())
        self.fh = open(self.out, "r")
        self.buf = ""
        self.cur = None          # index in flight
        self.cur_cpu0 = None
        self.cur_wall0 = None
        self.ended = False
        self.next_start = start

    def read(self):
        chunk = self.fh.read()
        if not chunk:
            return False
        parts = (self.buf + chunk).split("\n")
        self.buf = parts.pop()          # incomplete last line
        progressed = False
        for line in parts:
            progressed = True
            if line.startswith("B "):
                f = line.split()
                self.cur = int(f[1])
                self.cur_limit = CPU_LIMIT + (int(f[2]) if len(f) > 2 else 0) * CPU_PER_BYTE
                self.cur_cpu0 = None
                self.cur_wall0 = time.time()
            elif line.startswith("R "):
                _, i, js = line.split(" ", 2)
                self.results[int(i)] = js
                self.next_start = int(i) + 1
                self.cur = None
            elif line == "E":
                self.ended = True
        return progressed

    def poll(self):
        """returns True while the worker still has work"""
        if self.done:
            return False
        self.read()
        rc = self.proc.poll()
        if rc is not None:
            self.read()
            self.fh.close()
            if self.ended:
                self.done = True
                return False
            # abnormal exit: the input in flight killed the process
            if self.cur is not None:
                self.results[self.cur] = json.dumps({"st": "crash", "rc": rc, "viol": [
                    "the process running parse_design_source died (exit status %s: abort, stack overflow or out of memory)" % rc]})
                nxt = self.cur + 1
            else:
                nxt = self.next_start
                if self.spawns > 40:
                    self.done = True
                    return False
            if nxt >= self.end or self.spawns > 200:
                self.done = True
                return False
            self.spawn(nxt)
            return True
        if self.cur is not None:
            cpu = cpu_seconds(self.proc.pid)
            now = time.time()
            if cpu is not None:
                if self.cur_cpu0 is None:
                    self.cur_cpu0 = cpu
                hang = cpu - self.cur_cpu0 > self.cur_limit
            else:
                hang = False
            if hang or now - self.cur_wall0 > WALL_LIMIT:
                self.proc.kill()
                self.proc.wait()
                self.read()
                self.fh.close()
                why = ("used more than %.0f s of CPU time on this one input" % self.cur_limit) if hang else \
                      ("made no progress for %.0f s of wall-clock time" % WALL_LIMIT)
                self.hangs += 1
                self.results[self.cur] = json.dumps({"st": "hang", "viol": [
                    "parse_design_source does not terminate: the watched process %s" % why]})
                nxt = self.cur + 1
                if nxt >= self.end:
                    self.done = True
                    return False
                self.spawn(nxt)
        return True


def run_oracle(hbin, cases_path, ncases, outdir, nwork=NWORK):
    os.makedirs(outdir, exist_ok=True)
    for f in os.listdir(outdir):
        if f.endswith(".out"):
            os.remove(os.path.join(outdir, f))
    nwork = max(1, min(nwork, ncases))
    # round-robin assignment: the expensive inputs (whole libraries first, deep recipes last) spread over all workers
    ws = [Worker(k, hbin, cases_path, outdir, 0, ncases, nwork, k) for k in range(nwork)]
    aborted = False
    while True:
        alive = False
        for w in ws:
            if w.poll():
                alive = True
        if not alive:
            break
        # every hang costs CPU_LIMIT seconds: after MAX_HANGS of them the stream is abandoned (the check has failed anyway)
        nh = sum(w.hangs for w in ws)
        if nh >= MAX_HANGS:
            aborted = True
            for w in ws:
                if not w.done and w.proc is not None and w.proc.poll() is None:
                    w.proc.kill()
                    w.proc.wait()
            break
        time.sleep(0.05)
    results = {}
    for w in ws:
        results.update(w.results)
    return results, aborted


# ----------------------------------------------------------------------------------------------
# known findings
# ----------------------------------------------------------------------------------------------
def norm_text(t):
    t = re.sub(r"--[^\n\r]*", " ", t)
    return re.sub(r"\s+", " ", t).lower()


def open_findings():
    return [e for e in known_findings(PROP) if e.get("kind") == "open" and isinstance(e.get("match"), dict)]


def match_finding(entries, st, detail, text, cls=""):
    """An open entry matches iff its class equals the outcome class and its regexes match the panic/violation
    detail and the comment-stripped, whitespace-collapsed, lower-cased input."""
    for e in entries:
        m = e["match"]
        if m.get("class") and m["class"] != st:
            continue
        if m.get("detail_regex") and not re.search(m["detail_regex"], detail):
            continue
        if m.get("consecutive_ids"):
            g = re.search(m["detail_regex"], detail)
            if not g or len(g.groups()) < 2 or int(g.group(1)) != int(g.group(2)) + 1:
                continue
        if m.get("shape"):
            fam, _, n, _ = class_parts(cls)
            if fam != m["shape"] or n is None or n < m.get("min_chain_length", m.get("min_depth", 0)):
                continue
        if m.get("input_regex") and not re.search(m["input_regex"], norm_text(text)):
            continue
        if m.get("min_open_constructs") and \
                len(re.findall(r"\(|\bif\b|\bloop\b|\bblock\b|\bgenerate\b|\bnot\b|-", norm_text(text))) < m["min_open_constructs"]:
            continue
        return e
    return None


# ----------------------------------------------------------------------------------------------
# evaluation of the oracle results + loop replay
# ----------------------------------------------------------------------------------------------
_EXPAND = {}
HBIN = [None]


def case_text(line):
    """(class, text) of a case line; recipe cases (`@shape,n,..`) are expanded by the harness"""
    cls, _, hx = line.partition(" ")
    hx = hx.strip()
    if hx.startswith("@"):
        if hx not in _EXPAND:
            rc, out = run([HBIN[0], "expand", hx], timeout=600)
            _EXPAND.clear()
            _EXPAND[hx] = out if rc == 0 else ""
        return cls, _EXPAND[hx]
    return cls, bytes.fromhex(hx).decode("utf-8")


def strip_thread(cls):
    return cls[:cls.rindex("@")] if cls.endswith(("@2m", "@8m", "@64m")) else cls


def class_parts(cls):
    """deep/<shape>/<n>/<c|u>[@2m], long_chain/<shape>/<n>[@2m], nested_interface_subprogram_unclosed/<n>[@2m]"""
    two = cls.endswith(("@2m", "@8m", "@64m"))
    p = strip_thread(cls).split("/")
    fam = p[0]
    n = None
    for x in p[1:]:
        if x.isdigit():
            n = int(x)
    return fam, (p[1] if len(p) > 2 else None), n, two


# Expectations for class `deep`, derived from the unchanged tree (repo 892ddea) and pinned:
# beyond the nesting limit every shape must give a `Nesting too deep` diagnostic, except the shapes the parser
# rejects at the second level already (not recursive in the grammar it accepts) ...
NOT_RECURSIVE = {"external_name", "package", "record", "string_index", "bitstring_paren", "literal_paren", "null_paren",
                 "char_prefix", "allocator_constraint", "conditional_in_paren", "record_constraint_2",
                 "subprogram_package_body", "when_else_call"}
# ... and the unclosed form of these (the statement fails before the nested actual is reached again)
NOT_RECURSIVE_UNCLOSED = {"generic_map_call", "port_map_conversion"}
# closed forms that are valid VHDL: at depths <= 256 they parse to one unit without any diagnostic
CLEAN_SHAPES = {
    "paren", "if", "loop", "while", "call", "aggregate", "qualified", "block", "if_generate", "for_generate", "case_generate",
    "case", "not", "minus", "subprogram_body", "function_body", "protected_body", "constraint", "array_constraint",
    "resolution", "block_configuration", "component_configuration", "process_if",
    "op_call", "op_call_and", "attribute_parameter", "call_then_index", "named_association", "choice_bar", "choice_named",
    "selected_call", "waveform_call", "target_aggregate", "external_in_call", "generic_subprogram", "interface_default",
    "elsif_generate", "else_generate", "case_generate_2", "record_constraint", "record_constraint_2", "resolution_2",
    "resolution_record", "range_call", "case_choice_call", "procedure_call", "generic_map_call", "port_map_conversion",
    "assert_report", "physical_call"}


def loop_case(o):
    """`kinds|records` for the extracted model, or None when the trace is unusable"""
    tr = o.get("trace") or []
    recs = []
    for k in range(len(tr) - 1):
        recs.append("%d,%d,%d" % (tr[k][0], 1 if tr[k + 1][1] != tr[k][1] else 0, tr[k + 1][0]))
    return "%s|%s" % (o.get("kinds", ""), ";".join(recs))


def check_loop(o, model_line):
    """compares the model's prediction with the implementation; returns (violations, correspondence problems)"""
    bad, corr = [], []
    tr = o.get("trace") or []
    nt = o["nt"]
    if not tr:
        corr.append("hook H3 recorded nothing")
        return bad, corr
    if any(m[2] != nt for m in tr):
        corr.append("TokenStream holds %s tokens, the independent tokenisation %d" % (sorted({m[2] for m in tr}), nt))
    if tr[0][0] != 0 or tr[0][1] != 0:
        corr.append("first mark is %s, expected idx 0 / offset 0" % tr[0])
    for k in range(len(tr) - 1):
        if tr[k + 1][1] != tr[k][1] and tr[k + 1][1] != tr[k + 1][0]:
            corr.append("token_offset moved to %d although the cursor is at %d" % (tr[k + 1][1], tr[k + 1][0]))
    head, _, prog = model_line.rpartition("|")
    exit_mark = tr[-1][0] >= nt
    units = [(u[0], u[1]) for u in o.get("units", [])]
    if prog != "1":
        stuck = [(tr[k][0], tr[k + 1][0]) for k in range(len(tr) - 1) if not (tr[k][0] < tr[k + 1][0] <= nt)]
        bad.append("progress hypothesis violated: an iteration of parse_design_file moved the cursor %s (tokens: %d)"
                   % (stuck[:3], nt))
    if head.startswith("DONE "):
        ulist, _, fin = head[5:].partition("|")
        mu = [tuple(x.split(":")) for x in ulist.split(",") if x]
        mu = [(a, int(b)) for a, b in mu]
        if not exit_mark:
            corr.append("model: loop ends normally, implementation: last mark %s is no exit mark" % tr[-1])
        elif mu != units:
            bad.append("units differ from the slices the loop model predicts: implementation %s, model %s" % (units[:8], mu[:8]))
        else:
            fi, fo = fin.split(",")
            if int(fi) != tr[-1][0] or int(fo) != tr[-1][1]:
                corr.append("final cursor/offset: model %s, implementation %s" % (fin, tr[-1][:2]))
    elif head.startswith("NOUNIT "):
        i = int(head.split()[1])
        if exit_mark:
            corr.append("model: Err return at token %d, implementation: loop ended normally" % i)
        else:
            if i != tr[-1][0]:
                corr.append("model: Err return at token %d, implementation: last mark at %d" % (i, tr[-1][0]))
            if units:
                bad.append("Err return of parse_design_file, but parse_design_source returned %d units" % len(units))
            if o.get("nd", 0) < 1 or o.get("last_diag") != o.get("tail_tok"):
                bad.append("Err return: the last diagnostic (%s) is not at the token that starts no unit (%s)"
                           % (o.get("last_diag"), o.get("tail_tok")))
    else:
        if prog == "1":
            corr.append("model aborts (%s) although every record makes progress" % head)
    return bad, corr


COQ_KIND = {"l": "K_LIBRARY", "u": "K_USE", "c": "K_CONTEXT", "e": "K_ENTITY", "a": "K_ARCHITECTURE",
            "f": "K_CONFIGURATION", "p": "K_PACKAGE", "b": "K_BODY", "i": "KIdentifier", "s": "K_IS", "n": "K_NEW",
            ".": "KText"}
DELIMS = {"+": "KPlus", "-": "KMinus", "??": "KQueQue", "=": "KEQ", "/=": "KNE", "<": "KLT", "<=": "KLTE", ">": "KGT",
          ">=": "KGTE", "?=": "KQueEQ", "?/=": "KQueNE", "?<": "KQueLT", "?<=": "KQueLTE", "?>": "KQueGT",
          "?>=": "KQueGTE", "?": "KQue", "*": "KTimes", "**": "KPow", "/": "KDiv", "{identifier}": "KIdentifier",
          "{abstract_literal}": "KAbstractLiteral", "{string}": "KStringLiteral", "{bit_string}": "KBitString",
          "{character}": "KCharacter", "'": "KTick", "(": "KLeftPar", ")": "KRightPar", "[": "KLeftSquare",
          "]": "KRightSquare", ";": "KSemiColon", ":": "KColon", "|": "KBar", ".": "KDot", "<>": "KBOX", "<<": "KLtLt",
          ">>": "KGtGt", "^": "KCirc", "@": "KCommAt", "&": "KConcat", ",": "KComma", ":=": "KColonEq",
          "=>": "KRightArrow", "`": "KGraveAccent", "{text}": "KText"}
OP_KIND = {"semicolon": "KSemiColon", "colon": "KColon", "identifier": "KIdentifier", "lpar": "KLeftPar", "comma": "KComma"}


def coq_kw(name):
    return "(KKw [%s])" % "; ".join(str(ord(c)) for c in name)


def coq_kind_of_str(s):
    return DELIMS[s] if s in DELIMS else coq_kw(s)


def coq_op_kind(s):
    return OP_KIND[s] if s in OP_KIND else coq_kw(s)


def coq_loop_item(case_line, model_line):
    kinds, _, recs = case_line.partition("|")
    toks = "[" + "; ".join("mk %s" % COQ_KIND[c] for c in kinds) + "]"
    rl = []
    for r in recs.split(";"):
        if r:
            b, s, a = r.split(",")
            rl.append("(%s, %s, %s)" % (b, "true" if s == "1" else "false", a))
    head = model_line.rpartition("|")[0]
    if head.startswith("DONE "):
        ulist, _, fin = head[5:].partition("|")
        fi, fo = fin.split(",")
        exp = [1, int(fi), int(fo)]
        for x in ulist.split(","):
            if x:
                k, n = x.split(":")
                exp += [UNIT_CODE[k], int(n)]
    elif head.startswith("NOUNIT "):
        exp = [2, int(head.split()[1]), int(head.split("dropped=")[1])]
    elif head.startswith("ABORT fuel"):
        exp = [3]
    else:
        exp = [4]
    return "(%s, [%s], [%s])" % (toks, "; ".join(rl), "; ".join(str(x) for x in exp))


def rng_nums(r):
    a, b = r.split("-")
    return [int(x) for x in a.split(":")] + [int(x) for x in b.split(":")]


def flat_obs(s):
    if "!" in s:
        o, _, ds = s.partition("!")
        dl = [d for d in ds.split(",") if d]
        out = [8] + flat_obs(o) + [len(dl)]
        for d in dl:
            out += rng_nums(d)
        return out
    if s == "u":
        return [0]
    if s == "none":
        return [1]
    if s.startswith("id:"):
        return [2, int(s[3:])]
    if s.startswith("tok:"):
        return [3] + rng_nums(s[s.rindex("@") + 1:])
    if s.startswith("b:"):
        return [4, int(s[2:])]
    if s.startswith("r:"):
        return [5] + rng_nums(s[2:])
    if s.startswith("err:"):
        return [6] + rng_nums(s[4:])
    if s.startswith("len:"):
        return [7, int(s[4:])]
    if s == "CRASH":
        return [9]
    if s == "FUEL":
        return [10]
    raise ValueError(s)


def coq_op(o):
    p = o.split(" ")
    ks = lambda s: "[" + "; ".join(coq_op_kind(k) for k in s.split(",") if k) + "]"
    return {"skip": lambda: "OpSkip", "back": lambda: "OpBack", "set": lambda: "OpSetState %s" % p[1],
            "peek": lambda: "OpPeek", "cur": lambda: "OpCurId", "last": lambda: "OpLastId",
            "expect": lambda: "OpExpectKind %s" % coq_op_kind(p[1]), "popif": lambda: "OpPopIfKind %s" % coq_op_kind(p[1]),
            "peekexpect": lambda: "OpPeekExpect", "nextkinds": lambda: "OpNextKindsAre %s" % ks(p[1]),
            "skipuntil": lambda: "OpSkipUntil %s" % ks(p[1]), "recover": lambda: "OpRecoverUntil %s" % ks(p[1]),
            "posbefore": lambda: "OpPosBefore", "semi": lambda: "OpExpectSemiOrLast", "slice": lambda: "OpSlice",
            "gettoken": lambda: "OpGetToken %s" % p[1], "index": lambda: "OpIndex %s" % p[1],
            "span": lambda: "OpGetSpan %s %s" % (p[1], p[2])}[p[0]]()


def coq_ops_item(case_line, model_line):
    cps, dump, ops = case_line.split("|")
    toks = []
    for w in dump.split():
        k, r = w[:w.rindex("@")], w[w.rindex("@") + 1:]
        n = rng_nums(r)
        toks.append("mkr %s (%d, %d) (%d, %d)" % (coq_kind_of_str(k), n[0], n[1], n[2], n[3]))
    obs, _, fin = model_line.rpartition("|")
    exp = []
    pieces = obs.split(";")
    k = 0
    while k < len(pieces):
        s = pieces[k]
        if s == "tok:" and k + 1 < len(pieces):      # a token of kind `;` printed as tok:;@range
            s = "tok:;" + pieces[k + 1]
            k += 1
        k += 1
        if s:
            exp += flat_obs(s)
    exp += [int(x) for x in fin.split(",")]
    return "([%s], [%s], [%s], [%s])" % ("; ".join(cps.split()), "; ".join(toks),
                                         "; ".join(coq_op(o) for o in ops.split(";") if o),
                                         "; ".join(str(x) for x in exp))


COQ_PRE = """From Coq Require Import List NArith Bool.
Import ListNotations.
From RH Require Import Text.Contents Text.Reader Lex.LangLexer Parse.Stream Parse.DesignFileLoop.
Open Scope N_scope.
Definition mkr (k : kind) (s e : position) : token :=
  {| t_kind := k; t_val := VNone; t_s := s; t_e := e; t_lead := []; t_trail := None |}.
Definition mk (k : kind) : token := mkr k (0, 0) (0, 0).
Definition uc (u : ukind) : N := match u with UContext => 1 | UEntity => 2 | UArchitecture => 3 | UConfiguration => 4
  | UPackageBody => 5 | UPackageInstance => 6 | UPackage => 7 end.
Definition sum (r : lres) : list N :=
  match r with
  | LDone us fin => 1 :: s_idx fin :: s_off fin :: flat_map (fun u => [uc (fst u); N.of_nat (length (snd u))]) us
  | LNoUnit i us => [2; i; N.of_nat (length us)]
  | LAbort OutOfFuel => [3]
  | LAbort Crash => [4]
  end.
Definition fr (r : drange) : list N := [fst (fst r); snd (fst r); fst (snd r); snd (snd r)].
Fixpoint fo (o : obs) : list N :=
  match o with
  | BUnit => [0] | BNone => [1] | BId i => [2; i] | BTok _ r => 3 :: fr r
  | BBool b => [4; if b then 1 else 0] | BRange r => 5 :: fr r | BErr r => 6 :: fr r | BLen n => [7; n]
  | BDiags o ds => 8 :: fo o ++ N.of_nat (length ds) :: flat_map fr ds
  end.
Definition fp (p : pres obs) : list N :=
  match p with POk o => fo o | PErr r => 6 :: fr r | PAb Crash => [9] | PAb OutOfFuel => [10] end.
Definition fres (x : list (pres obs) * sstate) : list N :=
  flat_map fp (fst x) ++ [s_idx (snd x); s_off (snd x)].
"""


def coq_cross_check(res, loop_samples, ops_samples):
    if loop_samples:
        pre = COQ_PRE + "Definition cases : list (list token * list record * list N) := [\n" + \
            ";\n".join(coq_loop_item(c, m) for c, m in loop_samples) + "].\n"
        body = "forallb (fun c => match c with (toks, recs, exp) => leqb (sum (replay toks recs)) exp end) cases"
        v, log = coq_eval_bool(PROP, "loop", pre, body)
        res.coverage["in_coq_vm_compute_loop_cases"] = len(loop_samples)
        if v is not True:
            res.violation("extracted loop model and in-Coq evaluation (vm_compute) disagree on the sampled cases",
                          {"kind": "correspondence", "correspondence": "extraction vs vm_compute (RH.Parse.DesignFileLoop.replay)",
                           "log": log[-2000:]}, no_failing_input=True)
    if ops_samples:
        pre = COQ_PRE + "Definition cases : list (list N * list token * list op * list N) := [\n" + \
            ";\n".join(coq_ops_item(c, m) for c, m in ops_samples) + "].\n"
        body = ("forallb (fun c => match c with (cps, toks, ops, exp) => "
                "leqb (fres (run_ops (split_lines cps) toks ops sstart)) exp end) cases")
        v, log = coq_eval_bool(PROP, "ops", pre, body)
        res.coverage["in_coq_vm_compute_ops_cases"] = len(ops_samples)
        if v is not True:
            res.violation("extracted cursor model and in-Coq evaluation (vm_compute) disagree on the sampled cases",
                          {"kind": "correspondence", "correspondence": "extraction vs vm_compute (RH.Parse.Stream.run_ops)",
                           "log": log[-2000:]}, no_failing_input=True)


def run_model(mbin, mode, lines, path):
    with open(path + ".in", "w") as f:
        f.write("\n".join(lines) + ("\n" if lines else ""))
    with open(path + ".in") as fin, open(path + ".out", "w") as fout:
        # the extracted list functions are not tail recursive: inputs of > 10^6 tokens need a large stack
        p = subprocess.run(["sh", "-c", 'ulimit -s unlimited 2>/dev/null || ulimit -s 4000000 2>/dev/null; exec "$0" "$1"', mbin, mode],
                           stdin=fin, stdout=fout, stderr=subprocess.PIPE)
    if p.returncode != 0:
        return None, p.stderr.decode("utf-8", "replace")
    return open(path + ".out").read().split("\n")[:len(lines)], ""


def oracle_stage(res, hbin, mbin, cases_path, tag, stats, kf_entries, kf_hits, loop_samples):
    d = rundir(PROP)
    t_stage = time.time()
    lines = [l for l in open(cases_path).read().split("\n") if l]
    results, aborted = run_oracle(hbin, cases_path, len(lines), os.path.join(d, "work_" + tag))
    stats.setdefault("seconds", {})["oracle_" + tag] = round(time.time() - t_stage, 1)
    if aborted:
        stats["abandoned_streams"] = stats.get("abandoned_streams", []) + [tag]
    loop_idx, loop_lines = [], []
    parsed = {}
    nviol = 0
    for i, line in enumerate(lines):
        cls = line.partition(" ")[0]
        js = results.get(i)
        if js is None and aborted:
            stats["not_evaluated"] = stats.get("not_evaluated", 0) + 1
            continue
        if js is None:
            res.violation("no result for input %d of stream %s (worker lost)" % (i, tag),
                          {"kind": "harness", "case_index": i, "case": line[:2000]}, no_failing_input=True)
            continue
        o = json.loads(js)
        parsed[i] = {k: o.get(k) for k in ("st", "nt", "nd", "trace", "units", "last_diag", "tail_tok")} if o.get("st") == "ok" else o
        st = o.get("st")
        fam, shape, depth, two = class_parts(cls)
        ckey = fam + (cls[cls.rindex("@"):] if two else "") + ("" if tag != "stack" else " (unoptimised build)")
        stats["classes"][ckey] = stats["classes"].get(ckey, 0) + 1
        if fam.startswith("nested_interface_subprogram") and st == "ok" and o.get("nd", 0) > 16 * o.get("nt", 0) + 64:
            # regression of F54 (a41ca14): the number of diagnostics is linear in the input, not 2^n
            o.setdefault("viol", []).append("nested interface lists of depth %s: %d diagnostics for %d tokens (exponential "
                                            "error recovery?)" % (depth, o.get("nd", 0), o.get("nt", 0)))
        closed = strip_thread(cls).endswith("/c")
        if fam == "deep" and st == "ok" and depth is not None and depth <= 256 and closed and shape in CLEAN_SHAPES:
            if o.get("nd", 0) != 0 or len(o.get("units", [])) != 1:
                o.setdefault("viol", []).append(
                    "nesting depth %d of shape `%s` (valid VHDL below the nesting limit) gives %d diagnostics and %d units, "
                    "expected 0 and 1" % (depth, shape, o.get("nd", 0), len(o.get("units", []))))
        if fam == "deep" and st == "ok" and depth is not None and depth > 256:
            # regression of F41: beyond the nesting limit the parser reports instead of recursing
            need_ntd = shape not in NOT_RECURSIVE and not (shape in NOT_RECURSIVE_UNCLOSED and not closed)
            if o.get("nd", 0) < 1 or (need_ntd and o.get("ntd", 0) < 1):
                o.setdefault("viol", []).append(
                    "nesting depth %d of shape `%s`: %d diagnostics, %d of them `Nesting too deep` (expected at least one): "
                    "a cycle of parse functions bypasses ParsingContext::nested"
                    % (depth, shape, o.get("nd", 0), o.get("ntd", 0)))
            stats["deep_beyond_limit"] = stats.get("deep_beyond_limit", 0) + 1
        stats["outcomes"][st] = stats["outcomes"].get(st, 0) + 1
        nontrivial = st != "ok" or (o.get("nt", 0) >= 3 and (len(o.get("units", [])) > 0 or o.get("nd", 0) > 0))
        res.count_case(line, nontrivial)
        if st == "ok":
            for k in ("nt", "nd", "eofd", "ids", "spans", "touched", "decls"):
                stats["sums"][k] = stats["sums"].get(k, 0) + o.get(k, 0)
            stats["sums"]["units"] = stats["sums"].get("units", 0) + len(o.get("units", []))
            for u in o.get("units", []):
                stats["unit_kinds"][u[0]] = stats["unit_kinds"].get(u[0], 0) + 1
            if o.get("trace") and o["trace"][-1][0] < o["nt"]:
                stats["sums"]["err_returns"] = stats["sums"].get("err_returns", 0) + 1
            stats["sums"]["iterations"] = stats["sums"].get("iterations", 0) + max(0, len(o.get("trace", [])) - 1)
            stats["max_tokens"] = max(stats.get("max_tokens", 0), o.get("nt", 0))
            # the extracted model is quadratic (Peano fuel, list lookups): inputs with very many iterations over very
            # many tokens are checked for progress / offset consistency here and not replayed through it
            if o.get("nt", 0) <= MAX_REPLAY_TOKENS and len(o.get("trace") or []) * max(1, o.get("nt", 0)) <= MAX_REPLAY_WORK:
                loop_idx.append(i)
                loop_lines.append(loop_case(o))
            else:
                stats["loop_replay_skipped_large"] = stats.get("loop_replay_skipped_large", 0) + 1
                tr = o["trace"]
                stuck = [(tr[k][0], tr[k + 1][0]) for k in range(len(tr) - 1) if not tr[k][0] < tr[k + 1][0] <= o["nt"]]
                offs = [k for k in range(len(tr) - 1) if tr[k + 1][1] != tr[k][1] and tr[k + 1][1] != tr[k + 1][0]]
                if stuck or offs:
                    o.setdefault("viol", []).append("progress hypothesis violated / token_offset inconsistent at iterations %s %s"
                                                    % (stuck[:3], offs[:3]))
        if i % 2500 == 0 and st == "ok":
            _, text = case_text(line)
            res.add_sample({"class": cls, "text": text[:300], "tokens": o["nt"], "units": o.get("units", [])[:6],
                            "diagnostics": o.get("nd"), "token_ids_checked": o.get("ids"),
                            "positions_touched": o.get("touched")})
        if o.get("viol"):
            _, text = case_text(line)
            tr = o.get("trace") or []
            if st in ("hang", "panic") and len(tr) >= 2:
                stuck = [(tr[k][0], tr[k + 1][0]) for k in range(len(tr) - 1) if not tr[k][0] < tr[k + 1][0] <= tr[k][2]]
                if stuck:
                    o["viol"].append("progress hypothesis violated: an iteration of parse_design_file moved the cursor from "
                                     "%d to %d (tokens: %d)" % (stuck[0][0], stuck[0][1], tr[0][2]))
                o["trace"] = tr[:12]
            detail = " | ".join(o["viol"])
            e = match_finding(kf_entries, st, detail, text, cls)
            if e is not None:
                h = kf_hits.setdefault(e.get("id", "?"), {"n": 0, "example": "%s: %s" % (cls, text[:160]), "entry": e})
                h["n"] += 1
                continue
            nviol += 1
            if nviol <= 8:
                res.violation("[%s%s] %s: %s" % (cls, " unoptimised build" if tag == "stack" else "",
                                                 {"panic": "parse_design_source panics", "hang": "parse_design_source does not terminate",
                                           "crash": "the parser process died"}.get(st, "returned syntax is not in bounds / consistent"),
                                          detail[:500]),
                              {"kind": "input", "class": cls, "text": text if len(text) <= 200000 else text[:2000] + " ...",
                               "case": line if len(line) < 400000 else None,
                               "outcome": st, "violations": o["viol"], "result": {k: v for k, v in o.items() if k not in ("kinds",)},
                               "replay_cmd": "./check C02 --replay <this file>"})
    # correspondence A: loop replay
    t_model = time.time()
    stats["seconds"]["evaluate_" + tag] = round(t_model - t_stage - stats["seconds"]["oracle_" + tag], 1)
    model, err = run_model(mbin, "loop", loop_lines, os.path.join(d, "loop_" + tag))
    stats["seconds"]["loop_model_" + tag] = round(time.time() - t_model, 1)
    if model is None:
        res.violation("extracted loop model failed on stream %s" % tag, {"kind": "build", "log": err[-2000:]}, no_failing_input=True)
        return parsed
    ncorr = 0
    for i, cl, ml in zip(loop_idx, loop_lines, model):
        o = parsed[i]
        bad, corr = check_loop(o, ml)
        head = ml.rpartition("|")[0]
        stats["model_outcomes"][head.split(" ")[0]] = stats["model_outcomes"].get(head.split(" ")[0], 0) + 1
        if bad or corr:
            ncorr += 1
            if ncorr <= 5:
                _, text = case_text(lines[i])
                if bad:
                    res.violation("loop of parse_design_file: " + "; ".join(bad)[:500],
                                  {"kind": "input", "class": lines[i].partition(" ")[0], "text": text, "violations": bad + corr,
                                   "model": ml, "trace": o.get("trace"), "units": o.get("units"),
                                   "replay_cmd": "./check C02 --replay <this file>"})
                else:
                    res.violation("correspondence broken: the recorded iterations of parse_design_file do not replay through "
                                  "RH.Parse.DesignFileLoop: " + "; ".join(corr)[:400],
                                  {"kind": "input", "correspondence": "parse_design_file vs RH.Parse.DesignFileLoop.replay",
                                   "text": text, "violations": corr, "model": ml, "trace": o.get("trace"), "units": o.get("units")},
                                  no_failing_input=True)
        elif len(loop_samples) < 160 and o["nt"] <= 40 and len(o.get("trace", [])) >= 2 and (i % 7 == 0 or head.startswith("NOUNIT")):
            loop_samples.append((cl, ml))
    return parsed


def ops_stage(res, hbin, mbin, mode_args, tag, stats, ops_samples):
    d = rundir(PROP)
    cases, impl = os.path.join(d, tag + ".cases"), os.path.join(d, tag + ".impl")
    for f in (impl,) + ((cases,) if mode_args[0] == "ops" else ()):
        if os.path.exists(f):
            os.remove(f)
    # the ops run is a single watched process: CPU-time limit (wall-clock backstop), the case in flight is the first
    # one without result
    limit = OPS_CPU_LIMIT * (10 if mode_args[0] == "ops" and mode_args[2] > 100000 else 1)
    if mode_args[0] == "ops":
        cmd = [hbin, "ops", str(mode_args[1]), str(mode_args[2]), cases, impl]
    else:
        cases = mode_args[1]
        cmd = [hbin, "opsfile", cases, impl]
    p = subprocess.Popen(cmd, stdout=subprocess.PIPE, stderr=subprocess.STDOUT, env=env_base())
    t0 = time.time()
    rc = None
    while True:
        rc = p.poll()
        if rc is not None:
            break
        cpu = cpu_seconds(p.pid)
        if (cpu is not None and cpu > limit) or time.time() - t0 > WALL_LIMIT:
            p.kill()
            p.wait()
            rc = 124
            break
        time.sleep(0.05)
    out = (p.stdout.read() or b"").decode("utf-8", "replace")
    if rc == 124:
        cl = [l for l in open(cases).read().split("\n") if l] if os.path.exists(cases) else []
        ni = len([l for l in open(impl).read().split("\n") if l]) if os.path.exists(impl) else 0
        inflight = cl[ni] if ni < len(cl) else None
        res.violation("a cursor program on the real TokenStream did not terminate (the run used more than %d s of CPU time; "
                      "skip_until / or_recover_until loop without progress?)" % limit,
                      {"kind": "ops", "case": inflight, "results_before": ni, "replay_cmd": "./check C02 --replay <this file>"},
                      no_failing_input=inflight is None)
        return
    if rc != 0:
        res.violation("harness c02 crashed in mode %s" % mode_args[0], {"kind": "harness", "log": out[-2000:]}, no_failing_input=True)
        return
    cl = [l for l in open(cases).read().split("\n") if l]
    il = open(impl).read().split("\n")[:len(cl)]
    model, err = run_model(mbin, "ops", cl, os.path.join(d, tag + "_model"))
    if model is None:
        res.violation("extracted cursor model failed", {"kind": "build", "log": err[-2000:]}, no_failing_input=True)
        return
    nbad = 0
    for k, (c, i, m) in enumerate(zip(cl, il, model)):
        ops = c.split("|")[2].split(";")
        res.count_case("ops:" + c, len(ops) >= 3)
        for o in ops:
            stats["ops"][o.split(" ")[0]] = stats["ops"].get(o.split(" ")[0], 0) + 1
        if "CRASH" in i:
            stats["ops_crash"] = stats.get("ops_crash", 0) + 1
        if i != m:
            nbad += 1
            if nbad <= 5:
                res.violation("correspondence broken: TokenStream and the Coq cursor algebra (RH.Parse.Stream.run_ops) disagree "
                              "on a cursor program: implementation `%s`, model `%s`" % (i[:200], m[:200]),
                              {"kind": "ops", "correspondence": "TokenStream/recover.rs vs RH.Parse.Stream.run_ops", "case": c,
                               "impl": i, "model": m, "replay_cmd": "./check C02 --replay <this file>"}, no_failing_input=True)
        elif len(ops_samples) < 160 and k % 11 == 0:
            ops_samples.append((c, m))
    stats["ops_cases"] = stats.get("ops_cases", 0) + len(cl)


def harness_build_dev(bin_name, timeout=3000):
    """The same harness binary built with cargo's dev profile (opt-level 0: no tail calls, no inlining, large frames) into
    <target>/debug; called after harness_build (which synchronises the alternative harness copy under VERIF_REPO)."""
    env = env_base()
    env["RUSTFLAGS"] = "--cfg %s --cap-lints allow" % GUARD
    rc, out = run(["cargo", "build", "--offline", "--bin", bin_name], cwd=HARNESS, env=env, timeout=timeout)
    return rc == 0, out, os.path.join(TARGET, "debug", bin_name)


def corpus_cases(path_out):
    """corpus/C02.cases: JSON lines {"class":..., "text":...} -> harness case lines"""
    src = os.path.join(VERIF, "corpus", "C02.cases")
    n = 0
    with open(path_out, "w") as f:
        if os.path.exists(src):
            for l in open(src, encoding="utf-8"):
                l = l.strip()
                if l and not l.startswith("#"):
                    o = json.loads(l)
                    f.write("%s %s\n" % (o.get("class", "corpus"), o["text"].encode("utf-8").hex()))
                    n += 1
    return n


def main(tier, replay=None):
    res = Result(PROP, tier, level="other")
    d = rundir(PROP)
    proof_stage(res, PROP, thorough=(tier == "thorough"))
    ok, log, hbin = harness_build("c02")
    if not ok:
        res.violation("harness build failed against the current /repo tree", {"kind": "build", "log": log[-3000:]},
                      no_failing_input=True)
        return res.finish()
    ok, log, mbin = ocaml_build("c02_run")
    if not ok:
        res.violation("extracted model build failed", {"kind": "build", "log": log[-3000:]}, no_failing_input=True)
        return res.finish()
    HBIN[0] = hbin
    stats = {"classes": {}, "outcomes": {}, "sums": {}, "unit_kinds": {}, "model_outcomes": {}, "ops": {}}
    kf_entries = open_findings()
    kf_hits = {}
    loop_samples, ops_samples = [], []

    if replay:
        rp = json.load(open(replay))
        if rp.get("kind") == "ops":
            path = os.path.join(d, "replay_ops.in")
            open(path, "w").write(rp["case"] + "\n")
            ops_stage(res, hbin, mbin, ("opsfile", path), "replay_ops", stats, ops_samples)
        else:
            path = os.path.join(d, "replay.cases")
            if rp.get("case"):
                open(path, "w").write(rp["case"] + "\n")
            else:
                open(path, "w").write("%s %s\n" % (rp.get("class", "replay"), rp["text"].encode("utf-8").hex()))
            oracle_stage(res, hbin, mbin, path, "replay", stats, kf_entries, kf_hits, loop_samples)
    else:
        cpath = os.path.join(d, "corpus.cases")
        if corpus_cases(cpath):
            oracle_stage(res, hbin, mbin, cpath, "corpus", stats, kf_entries, kf_hits, loop_samples)
        copath = os.path.join(VERIF, "corpus", "C02.ops")
        if os.path.exists(copath):
            ops_stage(res, hbin, mbin, ("opsfile", copath), "corpus_ops", stats, ops_samples)
        gpath = os.path.join(d, "gen.cases")
        # the lengths at which the OPEN finding F53 (long chains) manifests are
        # generated only while known_findings.json lists it as open; the safe lengths always run
        flags = ""
        if any(e["match"].get("shape") == "long_chain" for e in kf_entries):
            flags += "+chain"
        rc, out = run([hbin, "gen", str(seed()), tier + flags, gpath], timeout=3000)
        if rc != 0:
            res.violation("harness c02 gen crashed", {"kind": "harness", "log": out[-2000:]}, no_failing_input=True)
            return res.finish()
        oracle_stage(res, hbin, mbin, gpath, "gen", stats, kf_entries, kf_hits, loop_samples)
        ops_stage(res, hbin, mbin, ("ops", seed(), 600000 if tier == "thorough" else 30000), "ops", stats, ops_samples)
        # the recursion-depth classes once more, in an UNOPTIMISED build of vhdl_lang (the property is about the code in
        # either profile: a self-call in tail position is a loop at opt-level 2 and a stack frame at opt-level 0)
        ok, log, dbin = harness_build_dev("c02")
        if not ok:
            res.violation("unoptimised harness build failed against the current /repo tree", {"kind": "build", "log": log[-3000:]},
                          no_failing_input=True)
        else:
            spath = os.path.join(d, "stack.cases")
            rc, out = run([hbin, "genstack", tier + ("+chain" if "+chain" in flags else ""), spath], timeout=600)
            if rc != 0:
                res.violation("harness c02 genstack crashed", {"kind": "harness", "log": out[-2000:]}, no_failing_input=True)
            else:
                oracle_stage(res, dbin, mbin, spath, "stack", stats, kf_entries, kf_hits, loop_samples)
    coq_cross_check(res, loop_samples[:160], ops_samples[:160])
    if not res.violations and not replay:
        # the generated streams are reproducible from the seed: drop the bulky intermediate files of a clean run
        import shutil
        for f in os.listdir(d):
            if f.startswith(("gen.cases", "loop_gen", "loop_stack", "ops.", "ops_model")):
                os.remove(os.path.join(d, f))
            elif f.startswith("work_"):
                shutil.rmtree(os.path.join(d, f), ignore_errors=True)

    for fid, h in sorted(kf_hits.items()):
        e = h["entry"]
        res.known_finding("%s id=%s reproduced on %d inputs, e.g. %s" % (e.get("open", "open: property=C02"), fid, h["n"],
                                                                        json.dumps(h["example"], ensure_ascii=False)))
    res.coverage["input_classes"] = stats["classes"]
    res.coverage["outcomes"] = stats["outcomes"]
    res.coverage["totals"] = stats["sums"]
    res.coverage["unit_kinds"] = stats["unit_kinds"]
    res.coverage["max_tokens_of_an_input"] = stats.get("max_tokens", 0)
    res.coverage["loop_model_outcomes"] = stats["model_outcomes"]
    res.coverage["cursor_programs"] = {"cases": stats.get("ops_cases", 0), "with_panic": stats.get("ops_crash", 0),
                                       "operations": stats["ops"]}
    if stats.get("abandoned_streams"):
        res.coverage["abandoned_streams"] = stats["abandoned_streams"]
        res.coverage["inputs_not_evaluated"] = stats.get("not_evaluated", 0)
    res.coverage["stage_seconds"] = stats.get("seconds", {})
    res.coverage["loop_replay_skipped_large_inputs"] = stats.get("loop_replay_skipped_large", 0)
    res.coverage["deep_inputs_beyond_nesting_limit"] = stats.get("deep_beyond_limit", 0)
    res.coverage["known_finding_inputs"] = {k: v["n"] for k, v in kf_hits.items()}
    res.coverage["exhaustive"] = False
    res.coverage["rule"] = (
        "corpus of minimised findings first (x-euro of F5, 1g.5 of F24, the open finding's inputs); generated inputs: the 37 "
        "bundled library files whole; a catalogue of 94 snippets covering every design unit, declaration, concurrent and "
        "sequential statement kind and the expression forms, each complete, cut after every token (with and without the "
        "closing context), with every single token deleted, and 1/3 duplicated / replaced; a small design truncated at every "
        "token; windows of library tokens placed in 17 parse contexts with 1-3 token mutations "
        "(delete/duplicate/insert/replace/truncate/swap/drop run); character-level library slices starting at unit keywords "
        "with fuzz mutations; keyword/delimiter soup; arbitrary bytes decoded as Latin-1; non-Latin-1 streams; comments that look like tool "
        "directives / pragmas (13 bases: vhdl_ls off/on with explanation, pragma, synthesis) with a multi-byte character, tab or NBSP "
        "inserted / substituted and a truncation at every position and case flips, in line and block comments, inside and outside "
        "ignored regions, nested, at end of file, and as backtick directives; numeric boundary literals (magnitudes MIN-2..MAX+2 of "
        "i8..i64/u8..u64, 10^19, 10^20, 2^100 in 35 literal forms: integer, exponent of decimal/real/based literals, base, bit string "
        "length, based digits, real mantissa, physical literals, each plain / with underscores / with leading zeros, in 7 contexts); "
        "a `stack` stream run by an UNOPTIMISED (cargo dev profile) build "
        "of vhdl_lang on 2 MiB and 8 MiB threads: runs of 10..200000 (thorough: 10^6) consecutive ignored regions in 6 styles (closed by "
        "a trailing comment on the only / a later token's line, by a comment line of its own, with a real token in between, with "
        "explanations, block comments), the nesting shapes at 200/20000 (64 MiB thread), chains at 100/500, nested interface subprograms; "
        "mixed-width lines "
        "(1-5 characters outside the BMP in a block comment / string / stray before each of 16 literal and identifier kinds, followed "
        "after 0-6 Latin-1 characters by a 2-, 3- or 4-byte character; plus random mixed-width lines) with the additional oracle that "
        "the text carried by bit string and abstract literal tokens equals the source between their UTF-16 columns; the resumed loop (0-3 pending context "
        "items x 18 failing unit heads that stop at the next keyword x more items x a second failing head x 9 good units with "
        "the closing `;` kept, typed as `:` or missing x 5 trailers; sampled 1/6 in quick); every top-level catalogue entry "
        "ending in `:`; nesting depths 50/200/600/5000/20000/100000 of 28 "
        "nesting shapes plus 44 further shapes (every way a primary, name, choice, association, constraint, resolution "
        "indication, interface list or generate alternative can contain itself) at 50/200/5000/100000, closed and unclosed, each on the main thread and on a 2 MiB-stack thread (beyond depth 256: a "
        "`Nesting too deep` diagnostic is required); iterative chains (9 shapes) at safe lengths, at the lengths of "
        "the open finding F53 only while it is listed in known_findings.json; nested interface subprograms (unclosed, balanced, "
        "balanced without return type) at depths 1..300 (regression of F54: diagnostics linear in the input); exhaustively every sequence of <= 3 (thorough: 4) "
        "tokens over a 14-word alphabet. "
        "non-trivial = the input has >= 3 tokens and yields a unit or a diagnostic (or violates); distinct by hash of the "
        "input.  Cursor programs: 1-17 operations on streams of 0-30 tokens, non-trivial = >= 3 operations")
    res.coverage["explanation"] = (
        "level `other`: THEOREM half = totality and range order of the lexer (shared model, C11), termination/no-panic of the "
        "design-file loop within `length tokens` iterations under the progress hypothesis, the slices-partition theorem, "
        "token-id arithmetic of the cursor algebra (ids lie in the next slice; get_last_token_id underflows exactly when nothing "
        "was consumed), ranges of eof_error/pos_before; tied to the code by the replay of hook-H3 records through the extracted "
        "loop model on every input and by the cursor-program differential.  EXPLORATION half (decisive for the ~80 production "
        "functions, which are not modelled): the implementation-level oracle on every generated input (no panic/hang/abort, "
        "ids and spans in bounds and ordered, walk with the unit's own tokens, slices against an independent tokenisation, "
        "diagnostic ranges), with the progress hypothesis monitored per iteration")
    res.coverage["unoptimised_build_stream"] = {k: v for k, v in stats["classes"].items() if "unoptimised" in k}
    res.coverage["trusted_base"] = TRUSTED_BASE_COMMON + [
        "the harness builds vhdl_lang with debug assertions and overflow checks (harness/Cargo.toml), so TokenSpan::new's "
        "debug_assert and usize underflow panic as in the model; a plain release build would wrap / keep an unordered span instead",
        "hook H3 (cfg-guarded, add-only): cursor marks at the top of each iteration and after the loop of parse_design_file; "
        "wrappers for expect_semicolon_or_last / or_recover_until on a bare TokenStream",
        "the Debug rendering of the AST prints every TokenId as `TokenId(n)` and every TokenSpan as `a:b` (derive(Debug) / "
        "Display of TokenSpan); string and character literals of the rendering are skipped",
        "loop replay abstracts token kinds to the eleven kinds parse_design_file's dispatch inspects",
    ]
    res.coverage["partial"] = True
    res.assumptions = [
        "H_progress (each top-level iteration leaves idx_after > idx_before, idx_after <= len) is a hypothesis of the loop "
        "theorems about the unmodelled productions; it is checked on every recorded iteration of every input",
        "the EOF marker [end, end+1) with end = Contents::end() is the only diagnostic range allowed outside the text",
    ]
    return res.finish()
